"""Per-property run table used by ./check and tools/gen_manifest.py.

Each entry: bin (explorer binary), quick / thorough (list of runs: cfg = feature set,
profile = rel | reldbg, args = extra CLI args), rule (what is enumerated / what counts as
non-trivial), bounds (per tier, human readable), assumptions.
"""

COMMON_ASSUME = [
    "reference models in /verif/vkit (exact big-integer arithmetic) are the trusted base; they are self-checked against Rust std on every run",
    "the explored space is the finite bounded space stated in coverage.bounds; inputs outside it are not covered",
    "x86_64 / SSE2 target as built by the installed rustc",
]


def cfgs(names, profile="rel", args=None):
    return [{"cfg": n, "profile": profile, "args": list(args or [])} for n in names]


CHECKS = {
    "C01": {
        "bin": "c01",
        "quick": cfgs(["dflt", "cmp", "rdxfmt", "cmprdxfmt"]),
        "thorough": cfgs(["dflt", "cmp", "rdxfmt", "cmprdxfmt", "p2", "fmt", "nostd_cmp"]),
        "rule": "complete enumeration of string families S (all strings over {+,-,0,1,5,9,.,e,E} up to depth L), "
                "ME (every significand with <= d digits x every decimal exponent in the finite range +-8), MEV (spelling "
                "variants), CF (continued-fraction near-halfway significands per exponent), HW (exact halfway expansions "
                "per binade and their perturbations), BD (boundaries); each judged by exact rational arithmetic; "
                "non-trivial = grammatical strings with a non-zero value (rounding, overflow or underflow decided)",
        "bounds": {
            "quick": "S depth 6; ME d=4; MEV d=2; CF 6 per (exponent, range); HW 3 mantissa patterns per binade; f32 and f64; parse and parse_partial",
            "thorough": "S depth 8; ME d=6; MEV d=3; CF 24 per (exponent, range); HW 8 mantissa patterns per binade; f32 and f64",
        },
        "assumptions": COMMON_ASSUME,
    },
}

# properties not claimed (reason). Kept current by hand.
NOT_APPLICABLE = {}
