"""Per-property run table used by ./check and tools/gen_manifest.py.

Each entry: bin (explorer binary), quick / thorough (list of runs: cfg = feature set,
profile = rel | reldbg, args = extra CLI args), rule (what is enumerated / what counts as
non-trivial), bounds (per tier, human readable), assumptions.
"""

COMMON_ASSUME = [
    "reference models in /verif/vkit (exact big-integer arithmetic) are the trusted base; they are self-checked against Rust std on every run",
    "the explored space is the finite bounded space stated in coverage.bounds; inputs outside it are not covered",
    "x86_64 / SSE2 target as built by the installed rustc",
]


def cfgs(names, profile="rel", args=None):
    return [{"cfg": n, "profile": profile, "args": list(args or [])} for n in names]


CHECKS = {
    "C01": {
        "bin": "c01",
        "quick": cfgs(["dflt", "cmp", "rdxfmt", "cmprdxfmt"]),
        "thorough": cfgs(["dflt", "cmp", "rdxfmt", "cmprdxfmt", "p2", "fmt", "nostd_cmp"]),
        "rule": "complete enumeration of string families S (all strings over {+,-,0,1,5,9,.,e,E} up to depth L), "
                "ME (every significand with <= d digits x every decimal exponent in the finite range +-8), MEV (spelling "
                "variants), CF (continued-fraction near-halfway significands per exponent), HW (exact halfway expansions "
                "per binade and their perturbations), BD (boundaries); each judged by exact rational arithmetic; "
                "non-trivial = grammatical strings with a non-zero value (rounding, overflow or underflow decided)",
        "bounds": {
            "quick": "S depth 6; ME d=4; MEV d=2; CF 6 per (exponent, range); HW 3 mantissa patterns per binade; f32 and f64; parse and parse_partial",
            "thorough": "S depth 8; ME d=6; MEV d=3; CF 24 per (exponent, range); HW 8 mantissa patterns per binade; f32 and f64",
        },
        "assumptions": COMMON_ASSUME,
    },
    "C02": {
        "bin": "c02",
        "quick": cfgs(["dflt", "cmp", "rdxfmt"]),
        "thorough": cfgs(["dflt"], args=["--all32"]) + cfgs(["cmp", "rdxfmt", "cmprdxfmt"]),
        "rule": "complete enumeration of float value families BIN (every binade x structured mantissa patterns), SD (floats nearest "
                "to every <= d-digit decimal at every exponent, and both neighbours), BD (binade borders, extremes), INT (small integers "
                "and neighbours), ZERO; thorough adds ALL32 (every positive finite f32). Output parsed by the reference grammar and judged "
                "exactly: round trip, shortest, closest (non-compact) / <= 17,9 digits (compact); non-trivial = outputs with >= 16 digits",
        "bounds": {
            "quick": "BIN level 2 (~330 mantissa patterns x every binade), SD d=3, INT < 2^14; f32 and f64; 1-in-64 negated",
            "thorough": "BIN level 3 (~4400 patterns x every binade), SD d=4, INT < 2^20, ALL32 = all 2^31-2^23-1 positive finite f32 (dflt config)",
        },
        "assumptions": COMMON_ASSUME,
    },
}

# properties not claimed (reason). Kept current by hand.
NOT_APPLICABLE = {}
