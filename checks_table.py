"""Per-property run table used by ./check and tools/gen_manifest.py.

Each entry: bin (explorer binary), quick / thorough (list of runs: cfg = feature set,
profile = rel | reldbg, args = extra CLI args), rule (what is enumerated / what counts as
non-trivial), bounds (per tier, human readable), assumptions.
"""

COMMON_ASSUME = [
    "reference models in /verif/vkit (exact big-integer arithmetic) are the trusted base; they are self-checked against Rust std on every run",
    "the explored space is the finite bounded space stated in coverage.bounds; inputs outside it are not covered",
    "x86_64 / SSE2 target as built by the installed rustc",
]


def cfgs(names, profile="rel", args=None, features=""):
    return [{"cfg": n, "profile": profile, "args": list(args or []), "features": features if ("fmt" in n or features != "catalogue") else ""} for n in names]


CHECKS = {
    "C01": {
        "bin": "c01",
        "quick": cfgs(["dflt", "cmp", "rdxfmt", "cmprdxfmt"]),
        "thorough": cfgs(["dflt", "cmp"], args=["--all32"]) + cfgs(["rdxfmt", "cmprdxfmt", "p2", "fmt", "nostd_cmp"]),
        "rule": "complete enumeration of string families S (all strings over {+,-,0,1,5,9,.,e,E} up to depth L), "
                "ME (every significand with <= d digits x every decimal exponent in the finite range +-8), MEV (spelling "
                "variants), CF (continued-fraction near-halfway significands per exponent), HW (exact halfway expansions "
                "per binade and their perturbations), BD (boundaries); each judged by exact rational arithmetic; "
                "non-trivial = grammatical strings with a non-zero value (rounding, overflow or underflow decided)",
        "bounds": {
            "quick": "S depth 6; ME d=4; MEV d=2; CF 6 per (exponent, range); HW 3 mantissa patterns per binade; f32 and f64; parse and parse_partial",
            "thorough": "S depth 8; ME d=6; MEV d=3; CF 24 per (exponent, range); HW 8 mantissa patterns per binade; f32 and f64; ALL32 (default and compact feature sets): every positive finite f32 bit pattern - its shortest decimal and the exact decimal midpoint to its successor (plus perturbed midpoints for every 8th, positional spelling for every 16th)",
        },
        "assumptions": COMMON_ASSUME,
    },
    "C02": {
        "bin": "c02",
        "quick": cfgs(["dflt", "cmp", "rdxfmt"]),
        "thorough": cfgs(["dflt"], args=["--all32"]) + cfgs(["cmp", "rdxfmt", "cmprdxfmt"]),
        "rule": "complete enumeration of float value families BIN (every binade x structured mantissa patterns), SD (floats nearest "
                "to every <= d-digit decimal at every exponent, and both neighbours), BD (binade borders, extremes), INT (small integers "
                "and neighbours), ENDPT (floats one of whose interval endpoints (2m+-1)*2^(e-1) equals j*2^t*10^k with 5^k dividing 2m+-1: the "
                "endpoint-inclusion cases of the shortest-digit search), ZERO; thorough adds ALL32 (every positive finite f32). Output parsed by the reference grammar and judged "
                "exactly: round trip, shortest, closest (non-compact) / <= 17,9 digits (compact); non-trivial = outputs with >= 16 digits",
        "bounds": {
            "quick": "BIN level 2 (~330 mantissa patterns x every binade), SD d=3, INT < 2^14; f32 and f64; 1-in-64 negated",
            "thorough": "BIN level 3 (~4400 patterns x every binade), SD d=4, INT < 2^20, ALL32 = all 2^31-2^23-1 positive finite f32 (dflt config)",
        },
        "assumptions": COMMON_ASSUME,
    },
    "C03": {
        "bin": "c03",
        "quick": cfgs(["dflt", "cmp", "p2", "rdx", "fmt", "rdxfmt", "cmprdxfmt"]),
        "thorough": cfgs(["dflt", "cmp", "p2", "fmt", "rdxfmt", "cmprdxfmt"]) + cfgs(["rdx"], args=["--all32"]),
        "rule": "in the feature sets with `format`, every INT value also under the same radix with required_mantissa_sign ('+' for non-negative values) into a buffer of exactly buffer_size_const bytes; PAIRS (32..128-bit types): every pair of adjacent digits (a,b) at every position of the all-ones numeral of every length, and ascending/descending digit patterns of every length, every radix; integer value family INT(T, r): every value of the 8/16-bit types; for wider types r^k-1, r^k, r^k+1, 2^j-1, 2^j, 2^j+1, "
                "MIN/MAX neighbourhoods, all sparse numerals (<= 2 or 3 non-zero digit positions, digits 1 and r-1) and all-(r-1) numerals of "
                "every length; x every supported radix x 12 types; each written into a buffer of exactly FORMATTED_SIZE(_DECIMAL) bytes placed "
                "flush against a trailing and a leading guard page with canaries; output compared byte for byte with the reference numeral "
                "(three-way with Display for radix 10); non-trivial = numerals longer than 2 bytes",
        "bounds": {
            "quick": "sparse numerals with <= 2 non-zero positions; all radices of the feature set",
            "thorough": "sparse numerals with <= 3 non-zero positions; plus every u32 and i32 value in radices 10, 2, 3, 7, 16, 36 (rdx config)",
        },
        "assumptions": COMMON_ASSUME,
    },
    "C04": {
        "bin": "c04",
        "quick": cfgs(["dflt", "cmp", "rdx", "rdxfmt", "cmprdxfmt"]),
        "thorough": cfgs(["dflt", "cmp", "p2", "rdx", "rdxfmt", "cmprdxfmt"]),
        "rule": "string families S (every string over {+,-,0,1,max digit in both cases,lowest non-digit,_,0xFF} to depth L), NUM (numerals of INT "
                "values and of MAX+1, MAX+r, (MAX+1)*r, MAX*r+r-1 in 30 variants: case, leading zeros, sign, trailing junk, embedded invalid bytes), "
                "FILL (repeated-digit numerals of every length up to digits(MAX)+3), BYTE (every byte value 0..255 before, between and after digits, in 7 shapes incl. inside 4- and 8-byte blocks, every radix), PAT (32..128-bit types: every adjacent digit pair at every position of all-ones numerals of every length; ascending/descending digit patterns of every length up to digits(MAX)+3), RANGE (8/16-bit types: every value in [-70000, 70000]); "
                "x 12 types x radices x {parse, parse_partial} x no_multi_digit on/off; value, consumed count, error kind and index compared "
                "with the literal left-to-right reference scan; non-trivial = inputs that are valid numerals or overflow",
        "bounds": {
            "quick": "S depth 5 for radices {2,8,10,16,17,36}; NUM/FILL all radices; RANGE radices {2,8,10,16,17,36}",
            "thorough": "S depth 7, all 35 radices for u8/i8/u64/i128; RANGE all radices",
        },
        "assumptions": COMMON_ASSUME + ["partial parser on an input with no digit before the first non-digit: outcome not defined by the statement, only indices <= len are checked"],
    },
    "C05": {
        "bin": "c05",
        "quick": cfgs(["rdx", "cmprdxfmt"]),
        "thorough": cfgs(["rdx", "cmprdxfmt", "p2", "rdxfmt"]),
        "rule": "per radix 2..36 (except 10) and per mixed-base format (4/2, 8/2, 16/2, 32/2, 16/4 x exponent-digit radix {10, mantissa radix, base}): "
                "ME (every significand with <= d digits x every exponent in the finite range +-8), MEV (spelling variants), CF (continued-fraction "
                "near-halfway significands per exponent, non-power-of-two radices), HW (exact halfway expansions per binade for even radices, 80-digit "
                "truncations for odd radices, with perturbations), BD (boundaries, absurd exponents), MIXED (short significands with 0-2 fraction digits x "
                "every exponent; exact halfway numerals per binade with sticky digits 300 places later); f32 and f64; parse and parse_partial; judged "
                "by exact rational arithmetic; non-trivial = non-zero values",
        "bounds": {
            "quick": "ME d = 6 (radix<=4), 3 (<=10), 2 (>10); CF 3 per (exponent, range); HW 3 patterns, every 4th binade; MIXED d=2",
            "thorough": "ME d = 6 (radix<=6), 4 (<=16), 3 (>16); CF 12; HW 8 patterns, every binade; MIXED d=3",
        },
        "assumptions": COMMON_ASSUME,
    },
    "C06": {
        "bin": "c06",
        "quick": cfgs(["p2", "rdx"]),
        "thorough": cfgs(["p2", "rdx", "cmprdxfmt"]),
        "rule": "float value families BD (every binade border +-1, extremes), BIN (every binade x mantissa patterns), zero, 1-in-37 negated; x radix "
                "{2,4,8,16,32} and 15 mixed-base formats (4/2, 8/2, 16/2, 32/2, 16/4 x exponent-digit radix) x notation {default breaks, breaks -1/+1 "
                "(exponent for nearly all), breaks -1100/+1100 (never exponent)}; output parsed by the reference grammar, its exact rational value must "
                "EQUAL the float, and lexical's parser in the same format must return identical bits; non-trivial = outputs in exponent notation",
        "bounds": {"quick": "BIN level 1 (~115 patterns x every binade)", "thorough": "BIN level 2 (~330 patterns x every binade)"},
        "assumptions": COMMON_ASSUME,
    },
    "C07": {
        "bin": "c06",
        "quick": cfgs(["rdx", "nostd_rdx"], args=["--c07"]),
        "thorough": cfgs(["rdx", "cmprdxfmt"], args=["--c07"]),
        "rule": "as C06 for the 29 generic radices, plus integers 1..2^12 (2^16 thorough), r^k-1, r^k, r^k+1 below 2^53/2^24, floats just below a power of "
                "the radix (carry back-trace), negative powers of the radix +-4 ulp; output must be a well-formed numeral of the radix (reference grammar), "
                "be accepted by lexical's parser in the same format, lie within 2048 (f64) / 256 (f32) ulp of the float by exact arithmetic, and be exact "
                "for integers; non-trivial = outputs in exponent notation",
        "bounds": {"quick": "BIN level 1; integers < 2^12", "thorough": "BIN level 2; integers < 2^16"},
        "assumptions": COMMON_ASSUME + ["a zero output for subnormals below 2048/256 ulp is accepted: the statement only bounds the distance"],
    },
    "C19": {
        "bin": "c19",
        "quick": cfgs(["dflt", "cmp", "rdx", "cmprdxfmt"]) + cfgs(["rdx"], profile="reldbg"),
        "thorough": cfgs(["dflt", "cmp", "rdx", "cmprdxfmt", "rdxfmt", "p2"]) + cfgs(["dflt", "rdx", "cmprdxfmt"], profile="reldbg"),
        "rule": "release and debug-assertion profiles; a lossless zero result stays zero; the C01/C05 string families (S incl. ungrammatical strings, ME, MEV, CF, HW, BD, per radix and mixed-base format) with lossy(true) "
                "against the non-lossy call on the same input: identical acceptance, error kind and index, consumed count; lossy value within one "
                "ULP of the exactly computed correctly rounded value (infinity counts as the neighbour of the largest finite float); literal zeros "
                "and decimal inputs with <= 15 (f64) / 7 (f32) digits and |exponent| <= 22 / 10 unchanged; non-trivial = accepted inputs",
        "bounds": {"quick": "S depth 5; ME d=4 decimal, 5/3/2 by radix; CF 4 / 2; HW 3 patterns", "thorough": "S depth 7; ME d=5; CF 12 / 6; HW 8 patterns"},
        "assumptions": COMMON_ASSUME + ["'zero, infinities unchanged' is read as: literal zero inputs and special strings (C15); an input that rounds to infinity may come back as the largest finite float"],
    },
    "C16": {
        "bin": "c16",
        "cross_config": True,
        "quick": cfgs(["dflt", "cmp", "p2", "rdx", "fmt", "rdxfmt", "cmprdxfmt", "nostd", "nostd_cmp", "nostd_rdx"]),
        "thorough": cfgs(["dflt", "cmp", "p2", "rdx", "fmt", "rdxfmt", "cmprdx", "cmprdxfmt", "nostd", "nostd_cmp", "nostd_rdx"]),
        "rule": "one deterministic input list through the default (decimal, STANDARD) API in every build configuration: float parse and parse_partial "
                "(S over {+,-,0,1,5,9,.,e,E,x,n,i}, ME, MEV, CF, HW, BD, special strings), integer parse and parse_partial for 12 types (S over "
                "{+,-,0,1,9,a,_,.,0xFF}, boundary numerals with suffixes), integer output (INT values), float output (BD, BIN, SD values, both signs); a "
                "64-bit hash per block of results must be identical across all configurations (float output: across non-compact ones; compact float "
                "output is judged to round-trip exactly). No reference model is involved: purely differential; non-trivial = accepted inputs / written values",
        "bounds": {"quick": "S depth 5, ME d=3, CF 3, SD d=2, BIN level 1", "thorough": "S depth 7, ME d=4, CF 8, SD d=3, BIN level 2"},
        "assumptions": ["configurations compared: the feature sets listed in coverage.cross_config.configurations, release profile"],
    },
    "C10": {
        "bin": "c10",
        "crash_is_violation": True,
        "quick": cfgs(["dflt", "rdxfmt", "cmprdxfmt"], features="catalogue") + cfgs(["rdxfmt"], profile="reldbg", features="catalogue"),
        "thorough": cfgs(["dflt", "fmt", "rdxfmt", "cmprdxfmt", "cmp"], features="catalogue") + cfgs(["dflt", "rdxfmt", "cmprdxfmt"], profile="reldbg", features="catalogue"),
        "rule": "SPEC: nan/NaN/inf/Inf/infinity/INFINITY with 0, 1 or 2 separators at every position x signs x trailing junk, every catalogued format with radix <= 18; MAG: 9 mantissa shapes x every exponent in a window wider than the float range (+-(1250/log2(base)+40)) and at the i32/i64/u64 limits, for the "
                "STANDARD and radix formats; every raw byte string up to length 2 (+ every third byte after a byte that can start a number; thorough: all 256^3) through the default "
                "API of all 14 types; every string of <= L tokens over a per-format alphabet {+,-,0,1,max digit,point,exponent char in both cases,"
                "separator,prefix,suffix,n,i,comma} and long digit strings (3..41 and 400..1200 digits, one or two separators at every position) through "
                "parse and parse_partial of f64/f32/u8/i32/i64/u128 for every catalogued format (STANDARD, each flag alone, digit/sign/special/leading-zero/"
                "case clusters, 15 separator combinations per component, mixed separators, radices, 147 prebuilt formats); inputs end at a PROT_NONE guard "
                "page (every 8th case also starts at one); oracle: no panic, no fault (SIGSEGV/SIGBUS handler names the case), consumed count and error "
                "index <= len, result independent of placement; non-trivial = inputs accepted by the complete parser",
        "bounds": {"quick": "token depth 4 (3 for prebuilt formats); release and debug-assertion profiles", "thorough": "token depth 5 (4 prebuilt); all byte strings of length <= 3"},
        "assumptions": ["termination is checked by the driver's run timeout only", "the guard page detects over-reads of >= 1 byte past the end (or before the start) of the input slice"],
    },
    "C11": {
        "bin": "c10",
        "quick": cfgs(["dflt", "rdxfmt", "cmprdxfmt"], args=["--c11"], features="catalogue"),
        "thorough": cfgs(["dflt", "fmt", "rdxfmt", "cmprdxfmt", "cmp"], args=["--c11"], features="catalogue"),
        "rule": "same enumeration as C10; relational oracle, no reference model: parse(s) = Ok(v) <=> parse_partial(s) = Ok((v, len)); and "
                "parse_partial(s) = Ok((v, n)) with 0 < n < len => parse(s[..n]) = Ok(v); floats by bits, NaN by class; STANDARD options and custom "
                "punctuation (',' decimal point, '^' exponent); non-trivial = inputs accepted by the complete parser",
        "bounds": {"quick": "token depth 4 (3 for prebuilt formats)", "thorough": "token depth 5 (4 prebuilt); all byte strings of length <= 3"},
        "assumptions": [],
    },
    "C12": {
        "bin": "c12",
        "quick": cfgs(["rdxfmt"], features="catalogue"),
        "thorough": cfgs(["rdxfmt", "fmt", "cmprdxfmt"], features="catalogue"),
        "rule": "every string of <= L tokens over the per-format alphabet {+,-,0,1,max digit,point,exponent char in both cases,prefix and suffix letters "
                "in both cases,nan,NaN,inf,Inf,infinity,n,i,comma} x every catalogued format without separator flags (STANDARD, each of the 18 syntax "
                "flags alone, full power set of the 7 digit/notation flags, sign cluster, special cluster, leading-zero x prefix cluster, case-sensitivity "
                "cluster with prefix x / suffix h in radix 10 and 16, radices 2/3/8/16/36; thorough adds the prebuilt formats without separators) x "
                "complete parsers of f64, f32, u8, i32, i64, u128; reference grammar R-gram interpreted from an independent descriptor decides accept / "
                "reject / special; accepted floats must be the correctly rounded value of the digits (exact arithmetic), integers exact or overflow; "
                "non-trivial = strings the reference grammar derives; inputs where the documentation is silent or contradicts itself are counted, not judged",
        "bounds": {"quick": "token depth 5", "thorough": "token depth 6; plus prebuilt formats"},
        "assumptions": COMMON_ASSUME + ["R-gram follows the flag one-liners in format_flags.rs and the NumberFormatBuilder getter docs; Unspecified cases: lone sign or empty string without required digits, `1.e3` under no_exponent_without_fraction, `0x` without digits, single digit before a base suffix, prefix x leading-zero flags"],
    },
    "C13": {
        "bin": "c13",
        "quick": cfgs(["rdxfmt"], features="catalogue"),
        "thorough": cfgs(["rdxfmt", "fmt", "cmprdxfmt"], features="catalogue"),
        "rule": "exact halfway decimal expansions of 6 f64 and 4 f32 values in three spellings with a fraction (big-integer slow path through the skipping iterators) with one separator run at every position; formats: each of the 15 valid internal/leading/trailing/consecutive flag combinations on the integer, fraction or exponent component alone "
                "and on all three (60), plus other separator bytes (',', quote, a letter), hex with binary exponent, hex/decimal with hexadecimal exponent "
                "digits, separator+prefix+suffix, integer-only separators (8); types f64, f32, i64, u128. (a) every string of <= L tokens over "
                "{-,1,0,max digit,separator,point,exponent,x} and long numbers (1..40 digits per component, exact halfway strings) with a separator run of "
                "length 1 and 2 at every position: if accepted, every run must stand in a position enabled by the flags (classification after "
                "docs/DigitSeparators.md) and deleting the separators must keep the value; (b) every accepted separator-free string with one enabled run "
                "inserted at every digit boundary of every component that has a digit keeps its value; (c) separator-free strings get identical "
                "complete and partial results under the format and under its separator-free twin; non-trivial = accepted inputs containing a separator",
        "bounds": {"quick": "token depth 6", "thorough": "token depth 7; plus prebuilt formats with separators (parts a, b)"},
        "assumptions": COMMON_ASSUME + ["runs with no digit on either side inside their component, and separators outside the digit components (next to the exponent sign) are not judged"],
    },
    "C15": {
        "bin": "c15",
        "quick": cfgs(["dflt", "rdxfmt"], features="catalogue"),
        "thorough": cfgs(["dflt", "cmp", "fmt", "rdxfmt", "cmprdxfmt"], features="catalogue"),
        "rule": "BYTESUB: every byte value 0..255 at every position of the default special strings (x signs x formats); near-miss inputs include every byte at Hamming distance 1 from each letter and from its other-case form; parse: 245 option triples (nan x inf x infinity from {default, None, 1 letter, other case, 50 letters, equal strings, inf a prefix of "
                "infinity}) x formats {STANDARD, no_special, case_sensitive_special, special_digit_separator and their valid combinations} x inputs near "
                "every configured and default special string (every prefix, one trailing byte from {x,0,i,n,_,.,e,y}, every single case flip, all upper / "
                "lower, every single substitution by @ ` [ { 0, a separator run of length 1 and 2 at every position) x sign {none,+,-} x {f32,f64} x "
                "{complete, partial}; the reference matcher decides NaN / infinity / neither, sign of infinity; a partial special result must come from a "
                "real match of the consumed prefix; every numeric string over {+,-,0,1,9,.,e,E} up to depth L never yields NaN and keeps the sign of zero. "
                "write: +-0, +-inf, quiet/signalling/negative NaNs x nan/inf option strings incl. None: exact bytes, NaN never signed, a disabled special "
                "panics; non-trivial = inputs that equal a configured special string",
        "bounds": {"quick": "numeric depth 6", "thorough": "numeric depth 7"},
        "assumptions": COMMON_ASSUME,
    },
    "C18": {
        "bin": "c18",
        "quick": cfgs(["dflt", "rdx", "fmt", "rdxfmt"], features="catalogue"),
        "thorough": cfgs(["dflt", "p2", "rdx", "fmt", "rdxfmt", "cmprdxfmt"], features="catalogue"),
        "rule": "run-time enumeration of NumberFormatBuilder (feature sets with format + power-of-two): all 2^18 syntax-flag vectors; all 2^13 separator-flag "
                "vectors x separator byte {none,_} x no_special; every value 0..255 of the separator, prefix and suffix byte x mantissa radix {10,16,36,2} x "
                "exponent radix {unset,16,36}; all 13^3 triples of punctuation bytes from a set of typical and illegal characters x separator flags on/off; "
                "every value 0..255 of each radix field and all 38^3 (mantissa radix, exponent base, exponent radix) triples. For each: build_strict panics "
                "<=> the reference validity predicate (written from the documented constraints) rejects it, every getter returns what the setter stored, "
                "rebuild(build_unchecked(b)) reproduces b field by field and is a fixed point. Options builders: exponent / decimal-point bytes 0..255, "
                "special strings of length 0..52 (wrong first letter, digits, non-ASCII, spaces), digit counts and exponent breaks: is_valid <=> build().is_ok "
                "<=> reference. Compile-time: format_is_valid / format_error of every generated catalogue format vs the reference; 18 invalid formats (one per "
                "class) and 10 invalid punctuation option sets through all parse entry points on every string of <= L tokens over {+,-,0,1,.,e,x}: always "
                "the configuration error, never a value or a panic; non-trivial = invalid configurations",
        "bounds": {"quick": "input depth 4 for the invalid-format sweep", "thorough": "input depth 5"},
        "assumptions": COMMON_ASSUME + ["the separator byte is compared only when a separator flag is set (build_unchecked drops it otherwise); an unset exponent base / radix equals the mantissa radix", "infinity_string = None while inf_string is set is not judged (setter docs and is_valid disagree)"],
    },
    "C09": {
        "bin": "c09",
        "crash_is_violation": True,
        "quick": cfgs(["dflt", "fmt", "rdxfmt"]) + cfgs(["rdxfmt"], profile="reldbg"),
        "thorough": cfgs(["dflt", "cmp", "fmt", "rdxfmt", "cmprdxfmt"]) + cfgs(["fmt", "rdxfmt"], profile="reldbg"),
        "rule": "float values (every 32nd / 4th binade x 3 mantissa patterns, extremes, ~25 decimal landmarks with carries and long expansions, zero, every "
                "5th negated) x formats (STANDARD, 6 decimal writer-flag formats, 7 radix writer-flag formats, every radix of the feature set, mixed-base "
                "formats) x the write-option product OPT_w (max/min significant digits, Round/Truncate, trim, positive and negative exponent breaks up to "
                "+-400 / +-1100) x buffer length = the documented bound buffer_size_const (every value) and lengths {0,1,2,longest-1,longest,bound/2,bound-1,"
                "bound+1} on the value with the longest output; plus default options with FORMATTED_SIZE_DECIMAL and the 12 integer types x radices x "
                "lengths around the numeral length and FORMATTED_SIZE. Buffers are flush against a trailing and a leading PROT_NONE guard page, the rest of "
                "the mapping is a canary. Oracle: len >= bound => no panic, returned length <= bound, slice starts at the buffer; shorter => Ok within the "
                "buffer or panic; never a fault or a modified canary; non-trivial = outputs within 8 bytes of the bound",
        "bounds": {"quick": "OPT_w level 1 for STANDARD (~6900 option sets), level 0 (~430) for other formats; ~130 values", "thorough": "OPT_w level 2 (~60000 option sets) for STANDARD; ~1600 values; debug-assertion profile"},
        "assumptions": ["the guard pages detect accesses of >= 1 byte outside the slice; canaries detect writes inside the mapping but outside the slice"],
    },
    "C17": {
        "bin": "c17",
        "quick": cfgs(["dflt", "rdxfmt"], features="facade"),
        "thorough": cfgs(["dflt", "cmp", "rdx", "rdxfmt", "cmprdxfmt"], features="facade"),
        "rule": "INTOPT: boundary values (0, +-1, radix^k-1, radix^k, radix^k+1, type limits) of all 12 integer types x facade formats (STANDARD, radix 2/16/32/3/36, required_mantissa_sign in radix 10 and 2): to_string_with_options = write_with_options into exactly buffer_size_const bytes = reference numeral; OPTB: every byte value 0..255 in every byte-valued write-float option (decimal point, exponent character, each position of 1..3-byte NaN and infinity strings); whatever build() accepts is used to write NaN, +-inf and finite values: all output bytes < 0x80 and facade = core; float values (binade borders, extremes, specials, decimal landmarks, both signs) x formats {STANDARD, radix 2/16/36/3, required signs + "
                "exponent notation, no exponent notation} x write options (OPT_w level 0, 50-letter special strings, and every ordered pair of valid "
                "punctuation bytes - printable ASCII, not a digit of the radix, not a sign - as decimal point and exponent): lexical::to_string* bytes == "
                "lexical_core::write* bytes, no byte >= 0x80, a panic on one side iff on the other; every string of <= L tokens over {+,-,0,1,.,exponent,x,"
                "nan,inf}: lexical::parse* == lexical_core::parse* (value bits, count, error); the 12 integer types on boundary and sparse values; "
                "non-trivial = values written",
        "bounds": {"quick": "every 7th punctuation pair, token depth 4", "thorough": "all ~8900 punctuation pairs per format, token depth 5"},
        "assumptions": [],
    },
    "C08": {
        "bin": "c08",
        "quick": cfgs(["dflt", "rdxfmt"]),
        "thorough": cfgs(["dflt", "cmp"]) + cfgs(["fmt", "rdxfmt", "cmprdxfmt"], features="catalogue,prebuiltw"),
        "rule": "formats: STANDARD, 13 writer-flag formats (required signs, required / no exponent notation, no exponent without fraction, radix 2/3/16/36 "
                "variants), every radix 2..36, 15 mixed-base formats, prebuilt language formats (thorough tier only: all 147) x float values (binade borders and patterns stepped, extremes, decimal landmarks, +-0, +-inf, NaNs, every 3rd negated) "
                "x agreeing writer/parser option pairs (decimal point x exponent character from sets valid for the radix, 4 special-string sets incl. None, "
                "trim_floats, exponent breaks incl. -1/+1 and +-400/+-1100): the written bytes must be accepted in full by the complete parser of the same "
                "format; bits equal for decimal and power-of-two radices, for zeros and infinities, NaN reads back as NaN; plus all 12 integer types in "
                "every radix on boundary and sparse values; non-trivial = outputs parsed back",
        "bounds": {"quick": "every 11th value; 2 points x 2 exponent characters", "thorough": "every 2nd value; 4 x 6 punctuation sets; all prebuilt formats"},
        "assumptions": ["specials are written and expected back only when the option string is configured and the format permits specials; generic (non power-of-two, non decimal) radices are only required to be accepted"],
    },
    "C14": {
        "bin": "c14",
        "quick": cfgs(["dflt", "rdxfmt"]),
        "thorough": cfgs(["dflt", "cmp", "rdxfmt", "cmprdxfmt"]),
        "rule": "digits written (zero padding included) <= max_significant_digits unless the integral part plus the mandatory single fraction digit needs more; float values (floats nearest to every 1-2 digit decimal at every exponent and their neighbours, 2 mantissa patterns per binade, carry "
                "shapes 9.99.., 0.0999.., 99999.5, 1.00..05 at every length 1..17, landmarks; every 9th negated) x the option product OPT_w (max / min "
                "significant digits, Round / Truncate, trim_floats, positive and negative exponent breaks) x formats {STANDARD, no / required exponent "
                "notation, no exponent without fraction; radix 2, 3, 16, 36 and their notation variants}. Oracle R-wopts, relative to the DEFAULT "
                "output of the same float in the same format (parsed by the reference grammar): significant digits = default digits rounded to "
                "max_significant_digits (half-even on the digit string / truncation, exact integer arithmetic in the radix), never more than max, padded "
                "to min unless trimmed as an integer; exponent notation iff required or the scientific exponent (of the float or of the carried rounded "
                "value) is outside the break points, never when forbidden, exactly one integer digit in exponent notation; trim_floats removes exactly an "
                "all-zero fraction; only the configured decimal point / exponent bytes appear; non-trivial = cases where digits were actually cut",
        "bounds": {"quick": "OPT_w level 1 (~6900 sets) for decimal formats, level 0 (~430) for radices; ~700 values", "thorough": "OPT_w level 2 for STANDARD; ~9000 values"},
        "assumptions": COMMON_ASSUME + ["for radices 4, 8, 16, 32 and mixed-base formats the exponent-break comparison is not judged (binary vs digit exponent is ambiguous in the statement)", "the default output itself is vouched for by C02 / C06 / C07"],
    },
}

# properties not claimed (reason). Kept current by hand.
NOT_APPLICABLE = {}
