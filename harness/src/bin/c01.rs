//! C01 — decimal string->float is correctly rounded. Bounded-exhaustive enumeration of the
//! families S, ME, CF, HW, BD (DESIGN.md §4/§5) on the real parser, judged by exact arithmetic.

use harness::common::*;
use harness::floatfam::*;
use vkit::out::*;
use vkit::simple::{Grammar, Judge};

fn run<T: Flt>(rep: &Report, cli: &Cli) {
    let thorough = cli.tier == "thorough";
    let sub = Subject::<T> {
        name: "std",
        parse: |b| lexical_core::parse::<T>(b),
        parse_partial: |b| lexical_core::parse_partial::<T>(b),
        lossy: false,
    };
    let g = Grammar::decimal();
    let p = DecParams {
        s_depth: if thorough { 8 } else { 6 },
        me_digits: if thorough { 6 } else { 4 },
        me_variant_digits: if thorough { 3 } else { 2 },
        cf_per: if thorough { 24 } else { 6 },
        hw_level: if thorough { 1 } else { 0 },
        hw_binade_step: 1,
    };
    run_decimal_families::<T>(rep, cli, &sub, &g, &p, "C01");
}

/// ALL32 (thorough, --all32): every positive finite f32 bit pattern b gives
///  SH  - the shortest decimal that identifies b (Rust's `{:e}`; lexical must return b),
///  MID - the exact decimal expansion of the midpoint between b and its successor (ties to even:
///        b if b is even, else b + 1; the successor of the largest finite float is infinity),
///  MID+/MID- (every 8th b) - the midpoint with a final digit added that moves it strictly
///        inside the upper / lower half interval,
/// each in exponent spelling (every 16th b also positional). Expected bits are closed-form; a
/// mismatch is re-judged through the exact-arithmetic checker, which files the violation.
fn all32(rep: &Report, cli: &Cli) {
    use vkit::big::Big;
    use vkit::par::par_chunks;
    let sub = Subject::<f32> {
        name: "std",
        parse: |b| lexical_core::parse::<f32>(b),
        parse_partial: |b| lexical_core::parse_partial::<f32>(b),
        lossy: false,
    };
    let spell = Spell { radix: 10, base: 10, exp_radix: 10, exp_char: b'e' };
    let pow5: Vec<Big> = (0..=151u64).map(|k| Big::pow(5, k)).collect();
    let last = 0x7f7f_ffffu64;
    par_chunks(last + 1, 1 << 16, cli.threads, |_, r| {
        let mut fam = Fam::new(rep, "f32:std:ALL32");
        let mut slow: Option<RoundChecker<f32>> = None;
        let mut buf: Vec<u8> = Vec::with_capacity(256);
        for b in r {
            fam.states += 1;
            fam.cases += 1;
            let mut probe = |s: &[u8], expected: u64, fam: &mut Fam| {
                fam.calls += 1;
                fam.nontrivial += 1;
                vkit::out::call_enter();
                let ok = matches!(lexical_core::parse::<f32>(s), Ok(v) if v.to_bits() as u64 == expected);
                vkit::out::call_exit();
                if !ok {
                    let c = slow.get_or_insert_with(|| RoundChecker::<f32>::new("C01", rep, &sub, &spell, "ALL32-judged"));
                    c.check(s);
                }
            };
            if b > 0 {
                use std::io::Write;
                buf.clear();
                write!(&mut buf, "{:e}", f32::from_bits(b as u32)).unwrap();
                probe(&buf, b, &mut fam);
            }
            // midpoint (2m+1) * 2^(e-1)
            let field = b >> 23;
            let (m, e) = if field == 0 { (b & 0x7f_ffff, -149i64) } else { ((b & 0x7f_ffff) | 0x80_0000, field as i64 - 150) };
            let big_m = 2 * m + 1;
            let sh = e - 1;
            let tie = if b & 1 == 0 { b } else { b + 1 };
            let variants = b % 8 == 0;
            if sh >= 0 {
                let n: u128 = (big_m as u128) << sh;
                probe(n.to_string().as_bytes(), tie, &mut fam);
                if variants {
                    probe(format!("{}.1", n).as_bytes(), b + 1, &mut fam);
                    probe(format!("{}.9", n - 1).as_bytes(), b, &mut fam);
                }
            } else {
                let k = (-sh) as usize;
                let mut d = pow5[k].clone();
                d.mul_small(big_m);
                let digits = d.to_digits(10);
                buf.clear();
                buf.extend_from_slice(&digits);
                buf.extend_from_slice(format!("e-{}", k).as_bytes());
                probe(&buf, tie, &mut fam);
                if variants {
                    // D ends in 5: D1 e-(k+1) is above, (D-1)9 e-(k+1) is below
                    let mut up = digits.clone();
                    up.push(b'1');
                    up.extend_from_slice(format!("e-{}", k + 1).as_bytes());
                    probe(&up, b + 1, &mut fam);
                    let mut dn = digits.clone();
                    let l = dn.len() - 1;
                    debug_assert_eq!(dn[l], b'5');
                    dn[l] = b'4';
                    dn.push(b'9');
                    dn.extend_from_slice(format!("e-{}", k + 1).as_bytes());
                    probe(&dn, b, &mut fam);
                }
                if b % 16 == 0 {
                    // positional spelling: 0.000ddd (k fraction digits)
                    let mut pos = Vec::with_capacity(k + 4);
                    if digits.len() > k {
                        pos.extend_from_slice(&digits[..digits.len() - k]);
                        pos.push(b'.');
                        pos.extend_from_slice(&digits[digits.len() - k..]);
                    } else {
                        pos.extend_from_slice(b"0.");
                        pos.extend(std::iter::repeat(b'0').take(k - digits.len()));
                        pos.extend_from_slice(&digits);
                    }
                    probe(&pos, tie, &mut fam);
                }
            }
            if b % (1 << 27) == 12345 && fam.want_sample() {
                rep.sample(format!("f32:std:ALL32 bits {:#x}: shortest, midpoint to successor (+-)", b));
            }
        }
        if let Some(c) = slow {
            c.done();
        }
        fam.finish();
    });
    rep.note("ALL32: every positive finite f32 bit pattern (0..=0x7f7fffff): shortest decimal and exact midpoint to the successor; closed-form expected bits, mismatches re-judged by exact arithmetic".into());
}

fn main() {
    let cli = parse_cli();
    silence_panics();
    let rep = Report::new("C01", config_name(), &cli.tier);
    if let Err(e) = vkit::self_check_all() {
        rep.machinery_error(format!("self-check: {e}"));
        finish(&rep, &cli);
    }
    if let Some(key) = &cli.replay {
        let sub64 = Subject::<f64> {
            name: "std",
            parse: |b| lexical_core::parse::<f64>(b),
            parse_partial: |b| lexical_core::parse_partial::<f64>(b),
            lossy: false,
        };
        let sub32 = Subject::<f32> {
            name: "std",
            parse: |b| lexical_core::parse::<f32>(b),
            parse_partial: |b| lexical_core::parse_partial::<f32>(b),
            lossy: false,
        };
        let g = Grammar::decimal();
        let mut j = Judge::new(10, 10);
        replay_case(&rep, key, &sub64, &sub32, &g, &mut j);
        finish(&rep, &cli);
    }
    if cli.tier == "thorough" && cli.extra.iter().any(|a| a == "--all32") {
        all32(&rep, &cli);
    }
    run::<f64>(&rep, &cli);
    run::<f32>(&rep, &cli);
    finish(&rep, &cli);
}
