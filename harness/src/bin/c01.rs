//! C01 — decimal string->float is correctly rounded. Bounded-exhaustive enumeration of the
//! families S, ME, CF, HW, BD (DESIGN.md §4/§5) on the real parser, judged by exact arithmetic.

use harness::common::*;
use harness::floatfam::*;
use vkit::out::*;
use vkit::simple::{Grammar, Judge};

fn run<T: Flt>(rep: &Report, cli: &Cli) {
    let thorough = cli.tier == "thorough";
    let sub = Subject::<T> {
        name: "std",
        parse: |b| lexical_core::parse::<T>(b),
        parse_partial: |b| lexical_core::parse_partial::<T>(b),
        lossy: false,
    };
    let g = Grammar::decimal();
    let p = DecParams {
        s_depth: if thorough { 8 } else { 6 },
        me_digits: if thorough { 6 } else { 4 },
        me_variant_digits: if thorough { 3 } else { 2 },
        cf_per: if thorough { 24 } else { 6 },
        hw_level: if thorough { 1 } else { 0 },
        hw_binade_step: 1,
    };
    run_decimal_families::<T>(rep, cli, &sub, &g, &p, "C01");
}

fn main() {
    let cli = parse_cli();
    silence_panics();
    let rep = Report::new("C01", config_name(), &cli.tier);
    if let Err(e) = vkit::self_check_all() {
        rep.machinery_error(format!("self-check: {e}"));
        finish(&rep, &cli);
    }
    if let Some(key) = &cli.replay {
        let sub64 = Subject::<f64> {
            name: "std",
            parse: |b| lexical_core::parse::<f64>(b),
            parse_partial: |b| lexical_core::parse_partial::<f64>(b),
            lossy: false,
        };
        let sub32 = Subject::<f32> {
            name: "std",
            parse: |b| lexical_core::parse::<f32>(b),
            parse_partial: |b| lexical_core::parse_partial::<f32>(b),
            lossy: false,
        };
        let g = Grammar::decimal();
        let mut j = Judge::new(10, 10);
        replay_case(&rep, key, &sub64, &sub32, &g, &mut j);
        finish(&rep, &cli);
    }
    run::<f64>(&rep, &cli);
    run::<f32>(&rep, &cli);
    finish(&rep, &cli);
}
