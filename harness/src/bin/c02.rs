//! C02 — float->decimal default output round-trips, is shortest+closest (non-compact) or
//! <= 17/9 digits (compact). Value families BIN, SD, BD, small integers; thorough: ALL32.

use harness::common::*;
use harness::valfam::*;
use vkit::big::PowTable;
use vkit::out::*;
use vkit::par::{par_chunks};
use vkit::shortest::{judge, parse_sci};
use vkit::simple::{parse_full, Grammar};

const COMPACT: bool = cfg!(feature = "compact");

struct Ck<'a, T: Flt> {
    rep: &'a Report,
    fam: Fam<'a>,
    pt: PowTable,
    g: Grammar,
    buf: Vec<u8>,
    _t: std::marker::PhantomData<T>,
}

impl<'a, T: Flt> Ck<'a, T> {
    fn new(rep: &'a Report, fam: &str) -> Self {
        Ck {
            rep,
            fam: Fam::new(rep, &format!("{}:{}", T::NAME, fam)),
            pt: PowTable::new(10),
            g: Grammar::decimal(),
            buf: vec![0u8; lexical_core::BUFFER_SIZE],
            _t: std::marker::PhantomData,
        }
    }
    fn key(bits: u64) -> String {
        format!("{}|write|{:#x}", T::NAME, bits)
    }
    fn check(&mut self, bits: u64) {
        let f = T::FMT;
        let v = T::from_bits64(bits);
        self.fam.states += 1;
        self.fam.cases += 1;
        self.fam.calls += 1;
        let buf = &mut self.buf;
        let r = guarded(|| lexical_core::write(v, &mut buf[..]).to_vec());
        let out = match r {
            Ok(o) => o,
            Err(p) => {
                self.rep.violation(Self::key(bits), format!("C02 write({}) panicked: {}", v.std_display(), p));
                return;
            }
        };
        if self.fam.want_sample() {
            self.rep.sample(format!("{} write({:#x}) -> {}", self.fam.name, bits, show_bytes(&out)));
        }
        let x = match parse_full(&self.g, &out) {
            Some(x) => x,
            None => {
                self.rep.violation(Self::key(bits), format!("C02 write({}) = {:?}: not a decimal numeral", v.std_display(), show_bytes(&out)));
                return;
            }
        };
        if x.neg != f.is_neg(bits) {
            self.rep.violation(Self::key(bits), format!("C02 write({}) = {:?}: wrong sign", v.std_display(), show_bytes(&out)));
            return;
        }
        let a = f.abs(bits);
        if a == 0 {
            if x.digits.iter().any(|&c| c != b'0') {
                self.rep.violation(Self::key(bits), format!("C02 write(zero) = {:?}", show_bytes(&out)));
            }
            return;
        }
        let q = x.exp as i64 - x.frac_len as i64;
        let vd = judge(f, a, &x.digits, q, &mut self.pt);
        if vd.ndigits >= 16 {
            self.fam.nontrivial += 1;
        }
        if x.has_exp {
            self.fam.bump("exponent_notation");
        }
        let max_digits = if f.mant_bits == 52 { 17 } else { 9 };
        let ok = vd.roundtrip && if COMPACT { vd.ndigits <= max_digits } else { vd.shortest && vd.closest };
        if !ok {
            // three-way: std's {:e} is shortest+closest
            let stds = v.std_sci();
            let (sd, sq) = parse_sci(&stds);
            let mut d0: Vec<u8> = x.digits.clone();
            while d0.len() > 1 && d0[0] == b'0' {
                d0.remove(0);
            }
            let mut q0 = q;
            while d0.len() > 1 && *d0.last().unwrap() == b'0' {
                d0.pop();
                q0 += 1;
            }
            if !COMPACT && d0 == sd && q0 == sq {
                self.rep.machinery_error(format!("R-shortest rejects {:?} for {:#x} but std agrees with lexical", show_bytes(&out), bits));
                return;
            }
            self.rep.violation(
                Self::key(bits),
                format!(
                    "C02 write({:#x}) = {:?}: roundtrip={} shortest={} closest={} digits={} ; std {{:e}} = {}",
                    bits,
                    show_bytes(&out),
                    vd.roundtrip,
                    vd.shortest,
                    vd.closest,
                    vd.ndigits,
                    stds
                ),
            );
        }
    }
    fn done(self) {
        self.fam.finish();
    }
}

fn run_list<T: Flt>(rep: &Report, cli: &Cli, name: &str, vals: &[u64]) {
    par_chunks(vals.len() as u64, 4096, cli.threads, |_, r| {
        let mut c = Ck::<T>::new(rep, name);
        for i in r {
            let b = vals[i as usize];
            c.check(b);
            // negative counterpart for a structured 1-in-64 subset
            if i % 64 == 0 {
                c.check(b | T::FMT.sign_mask());
            }
        }
        c.done();
    });
}

fn run<T: Flt>(rep: &Report, cli: &Cli) {
    let thorough = cli.tier == "thorough";
    let f = T::FMT;
    let mut c = Ck::<T>::new(rep, "ZERO");
    c.check(0);
    c.check(f.sign_mask());
    c.done();
    run_list::<T>(rep, cli, "BD", &bd_values(f));
    run_list::<T>(rep, cli, "BIN", &bin_values(f, if thorough { 3 } else { 2 }));
    let (qlo, qhi) = if f.mant_bits == 52 { (-330, 310) } else { (-50, 40) };
    run_list::<T>(rep, cli, "SD", &sd_values::<T>(if thorough { 4 } else { 3 }, qlo, qhi));
    run_list::<T>(rep, cli, "INT", &small_int_values::<T>(if thorough { 20 } else { 14 }));
    // endpoints that are short decimals: k >= kmin keeps the family small (j < 2^(p+1) / 5^kmin)
    let kmin = if f.mant_bits == 52 { if thorough { 15 } else { 17 } } else if thorough { 2 } else { 4 };
    run_list::<T>(rep, cli, "ENDPT", &endpoint_values(f, kmin));
}

fn all32(rep: &Report, cli: &Cli) {
    par_chunks(1u64 << 31, 1 << 16, cli.threads, |_, r| {
        let mut c = Ck::<f32>::new(rep, "ALL32");
        for b in r {
            if b != 0 && b < 0x7f80_0000 {
                c.check(b);
            }
        }
        c.done();
    });
    rep.note("ALL32: every positive finite f32 bit pattern (2^31 - 2^23 - 1 values); sign handled by the 1-in-64 subset of the other families".into());
}

fn main() {
    let cli = parse_cli();
    silence_panics();
    let rep = Report::new("C02", config_name(), &cli.tier);
    if let Err(e) = vkit::self_check_all() {
        rep.machinery_error(format!("self-check: {e}"));
        finish(&rep, &cli);
    }
    if let Some(key) = &cli.replay {
        let parts: Vec<&str> = key.split('|').collect();
        let bits = u64::from_str_radix(parts[2].trim_start_matches("0x"), 16).unwrap();
        if parts[0] == "f64" {
            let mut c = Ck::<f64>::new(&rep, "replay");
            c.check(bits);
            c.done();
        } else {
            let mut c = Ck::<f32>::new(&rep, "replay");
            c.check(bits);
            c.done();
        }
        finish(&rep, &cli);
    }
    run::<f64>(&rep, &cli);
    run::<f32>(&rep, &cli);
    if cli.tier == "thorough" && cli.extra.iter().any(|a| a == "--all32") {
        all32(&rep, &cli);
    }
    finish(&rep, &cli);
}
