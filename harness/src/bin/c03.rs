//! C03 — integer->string is the exact canonical numeral in every radix; slice starts at the
//! buffer start; buffer of exactly the documented size inside guard pages.

use harness::common::*;
use harness::intglue::*;
use lexical_core::FormattedSize;
use vkit::gen::int_magnitudes;
use vkit::guard::Guarded;
use vkit::intref::{numeral, IVal};
use vkit::out::*;
use vkit::par::par_chunks;

struct Ck<'a> {
    rep: &'a Report,
    fam: Fam<'a>,
    g: Guarded,
}

const CANARY: u8 = 0xA5;

impl<'a> Ck<'a> {
    fn new(rep: &'a Report, fam: &str) -> Self {
        Ck { rep, fam: Fam::new(rep, fam), g: Guarded::new(4096) }
    }
    fn check<T: Int>(&mut self, v: T, radix: u32, via_default: bool) {
        let iv = v.to_ival();
        let exp = numeral(iv, radix);
        self.fam.states += 1;
        self.fam.cases += 1;
        if exp.len() > 2 {
            self.fam.nontrivial += 1;
        }
        let size = if via_default || radix == 10 { T::FORMATTED_SIZE_DECIMAL } else { T::FORMATTED_SIZE };
        let key = format!("{}|write|r{}|{}|{}", T::NAME, radix, if via_default { "default" } else { "options" }, iv.show());
        for place_tail in [true, false] {
            self.g.all().fill(CANARY);
            let cap = self.g.capacity();
            let (res, start_ok) = {
                let buf: &mut [u8] = if place_tail { self.g.tail(size) } else { self.g.head(size) };
                let p0 = buf.as_ptr();
                self.fam.calls += 1;
                let r = guarded(|| {
                    let out = if via_default { lexical_core::write(v, buf) } else { write_radix(v, radix, buf) };
                    (out.as_ptr(), out.to_vec())
                });
                match r {
                    Ok((p, bytes)) => (Ok(bytes), p == p0),
                    Err(e) => (Err(e), true),
                }
            };
            match res {
                Err(p) => {
                    self.rep.violation(key.clone(), format!("C03 write {} {} radix {} with buffer of {} bytes panicked: {}", T::NAME, iv.show(), radix, size, p));
                    return;
                }
                Ok(bytes) => {
                    if bytes != exp || !start_ok {
                        self.rep.violation(
                            key.clone(),
                            format!("C03 write {} {} radix {} = {:?} (starts at buffer start: {}) ; expected {:?}", T::NAME, iv.show(), radix, show_bytes(&bytes), start_ok, show_bytes(&exp)),
                        );
                        return;
                    }
                }
            }
            // canary outside the slice
            let all = self.g.all();
            let (lo, hi) = if place_tail { (cap - size, cap) } else { (0, size) };
            if all[..lo].iter().any(|&b| b != CANARY) || all[hi..].iter().any(|&b| b != CANARY) {
                self.rep.violation(key.clone(), format!("C03 write {} {} radix {}: bytes outside the {}-byte buffer were modified", T::NAME, iv.show(), radix, size));
                return;
            }
        }
        if radix == 10 {
            // three-way with Display
            if v.to_string().as_bytes() != &exp[..] {
                self.rep.machinery_error(format!("R-int numeral differs from Display for {} {}", T::NAME, iv.show()));
            }
        }
        if self.fam.want_sample() {
            self.rep.sample(format!("{} {} radix {} -> {}", self.fam.name, iv.show(), radix, show_bytes(&exp)));
        }
    }
    /// the same value under a format that requires a sign: `+` for non-negative values, buffer of
    /// the documented size
    #[cfg(feature = "format")]
    fn check_plus<T: Int>(&mut self, v: T, radix: u32) {
        let iv = v.to_ival();
        let mut exp = numeral(iv, radix);
        if !iv.neg {
            exp.insert(0, b'+');
        }
        self.fam.states += 1;
        self.fam.cases += 1;
        self.fam.nontrivial += 1;
        self.fam.calls += 1;
        let size = buffer_size_radix_plus::<T>(radix);
        let key = format!("{}|write|r{}|plus|{}", T::NAME, radix, iv.show());
        self.g.all().fill(CANARY);
        let cap = self.g.capacity();
        let res = {
            let buf: &mut [u8] = self.g.tail(size);
            guarded(|| write_radix_plus(v, radix, buf).to_vec())
        };
        match res {
            Err(p) => {
                self.rep.violation(key, format!("C03 write {} {} radix {} (required sign) with the documented buffer of {} bytes panicked: {}", T::NAME, iv.show(), radix, size, p));
                return;
            }
            Ok(bytes) => {
                if bytes != exp {
                    self.rep.violation(key, format!("C03 write {} {} radix {} (required sign) = {:?} ; expected {:?}", T::NAME, iv.show(), radix, show_bytes(&bytes), show_bytes(&exp)));
                    return;
                }
            }
        }
        let all = self.g.all();
        if all[..cap - size].iter().any(|&b| b != CANARY) {
            self.rep.violation(key, format!("C03 write {} {} radix {} (required sign): bytes outside the {}-byte buffer were modified", T::NAME, iv.show(), radix, size));
        }
    }
    fn done(self) {
        self.fam.finish();
    }
}

fn values<T: Int>(radix: u32, sparse: usize) -> Vec<IVal> {
    let mut out = Vec::new();
    if T::TY.bits <= 16 {
        let max = T::TY.max_mag(false);
        for m in 0..=max {
            out.push(IVal { neg: false, mag: m });
        }
        if T::TY.signed {
            for m in 1..=T::TY.max_mag(true) {
                out.push(IVal { neg: true, mag: m });
            }
        }
        return out;
    }
    for m in int_magnitudes(T::TY.max_mag(false), radix, sparse) {
        out.push(IVal { neg: false, mag: m });
    }
    if T::TY.signed {
        for m in int_magnitudes(T::TY.max_mag(true), radix, sparse) {
            if m != 0 {
                out.push(IVal { neg: true, mag: m });
            }
        }
    }
    out
}

fn run_pairs<T: Int>(rep: &Report, cli: &Cli) {
    if T::TY.bits <= 16 {
        return; // exhaustive already
    }
    let radices = supported_radices();
    vkit::par::par_items(&radices, cli.threads, |_, &radix| {
        let mut c = Ck::new(rep, &format!("{}:PAIRS", T::NAME));
        for iv in harness::intglue::pair_values::<T>(radix) {
            if let Some(v) = T::from_ival(iv) {
                c.check(v, radix, false);
            }
        }
        c.done();
    });
}

fn run_type<T: Int>(rep: &Report, cli: &Cli) {
    let thorough = cli.tier == "thorough";
    let radices = supported_radices();
    let sparse = if thorough { 3 } else { 2 };
    vkit::par::par_items(&radices, cli.threads, |_, &radix| {
        let mut c = Ck::new(rep, &format!("{}:INT", T::NAME));
        for iv in values::<T>(radix, sparse) {
            let v = T::from_ival(iv).expect("value fits");
            c.check(v, radix, false);
            if radix == 10 {
                c.check(v, 10, true);
            }
            #[cfg(feature = "format")]
            c.check_plus(v, radix);
        }
        c.done();
    });
}

fn all32(rep: &Report, cli: &Cli) {
    let radices: Vec<u32> = [10u32, 2, 3, 7, 16, 36].into_iter().filter(|r| supported_radices().contains(r)).collect();
    for &radix in &radices {
        par_chunks(1u64 << 32, 1 << 18, cli.threads, |_, r| {
            // lighter check (no guard pages): exact numeral equality for every u32 / i32
            let mut fam = Fam::new(rep, "ALLU32");
            let mut buf = [0u8; 128];
            for x in r {
                let v = x as u32;
                let exp = numeral(IVal::from_u128(v as u128), radix);
                let out = write_radix(v, radix, &mut buf[..<u32 as FormattedSize>::FORMATTED_SIZE]);
                if out != &exp[..] {
                    rep.violation(format!("u32|write|r{}|options|{}", radix, v), format!("C03 write u32 {} radix {} = {:?}", v, radix, show_bytes(out)));
                }
                let w = v as i32;
                let exp = numeral(IVal::from_i128(w as i128), radix);
                let out = write_radix(w, radix, &mut buf[..<i32 as FormattedSize>::FORMATTED_SIZE]);
                if out != &exp[..] {
                    rep.violation(format!("i32|write|r{}|options|{}", radix, w), format!("C03 write i32 {} radix {} = {:?}", w, radix, show_bytes(out)));
                }
                fam.cases += 2;
                fam.states += 2;
                fam.calls += 2;
            }
            fam.finish();
        });
    }
}

fn replay(rep: &Report, key: &str) {
    let p: Vec<&str> = key.split('|').collect();
    let radix: u32 = p[2][1..].parse().unwrap();
    let via_default = p[3] == "default";
    let neg = p[4].starts_with('-');
    let mag: u128 = p[4].trim_start_matches('-').parse().unwrap();
    let iv = IVal { neg, mag };
    let plus = p[3] == "plus";
    fn go<T: Int>(rep: &Report, name: &str, iv: IVal, radix: u32, d: bool, plus: bool) {
        if T::NAME == name {
            let mut c = Ck::new(rep, "replay");
            if plus {
                #[cfg(feature = "format")]
                c.check_plus(T::from_ival(iv).unwrap(), radix);
            } else {
                c.check(T::from_ival(iv).unwrap(), radix, d);
            }
            c.done();
        }
    }
    harness::for_each_int_type!(go, rep, p[0], iv, radix, via_default, plus);
}

fn main() {
    let cli = parse_cli();
    silence_panics();
    let rep = Report::new("C03", config_name(), &cli.tier);
    if let Err(e) = vkit::self_check_all() {
        rep.machinery_error(format!("self-check: {e}"));
        finish(&rep, &cli);
    }
    if let Some(key) = &cli.replay {
        replay(&rep, key);
        finish(&rep, &cli);
    }
    harness::for_each_int_type!(run_type, &rep, &cli);
    harness::for_each_int_type!(run_pairs, &rep, &cli);
    if cli.tier == "thorough" && cli.extra.iter().any(|a| a == "--all32") {
        all32(&rep, &cli);
    }
    finish(&rep, &cli);
}
