//! C04 — string->integer is exact with exact overflow detection and error positions.
//! Families: S (all strings over Σ_int(r) to depth L), NUM (boundary numerals and variants),
//! FILL (max-digit numerals of every length), RANGE (8/16-bit: every value in [-70000, 70000]).

use harness::common::*;
use harness::intglue::*;
use lexical_core::{Error, ParseIntegerOptions};
use vkit::big::{digit_char, Big};
use vkit::gen;
use vkit::intref::{numeral_mag, ref_parse, IVal, RefErr, RefOut};
use vkit::out::*;
use vkit::par::par_items;

#[derive(Debug, PartialEq, Eq, Clone)]
enum Got {
    Ok(IVal, usize),
    Err(RefErr),
    Other(String),
}

fn conv_err(e: Error) -> Got {
    match e {
        Error::Empty(i) => Got::Err(RefErr::Empty(i)),
        Error::InvalidDigit(i) => Got::Err(RefErr::InvalidDigit(i)),
        Error::Overflow(i) => Got::Err(RefErr::Overflow(i)),
        Error::Underflow(i) => Got::Err(RefErr::Underflow(i)),
        other => Got::Other(format!("{:?}", other)),
    }
}

struct Ck<'a> {
    rep: &'a Report,
    fam: Fam<'a>,
    opts: [ParseIntegerOptions; 2],
}

impl<'a> Ck<'a> {
    fn new(rep: &'a Report, fam: &str) -> Self {
        let o1 = ParseIntegerOptions::builder().no_multi_digit(false).build().unwrap();
        let o2 = ParseIntegerOptions::builder().no_multi_digit(true).build().unwrap();
        Ck { rep, fam: Fam::new(rep, fam), opts: [o1, o2] }
    }
    fn check<T: Int>(&mut self, s: &[u8], radix: u32) {
        self.fam.states += 1;
        self.fam.cases += 1;
        let exp_c = ref_parse(s, radix, T::TY, false);
        let exp_p = ref_parse(s, radix, T::TY, true);
        if matches!(exp_c, RefOut::Ok(..) | RefOut::Err(RefErr::Overflow(_)) | RefOut::Err(RefErr::Underflow(_))) {
            self.fam.nontrivial += 1;
        }
        match exp_c {
            RefOut::Ok(..) => self.fam.bump("ok"),
            RefOut::Err(RefErr::Overflow(_)) | RefOut::Err(RefErr::Underflow(_)) => self.fam.bump("overflow"),
            RefOut::Err(RefErr::InvalidDigit(_)) => self.fam.bump("invalid_digit"),
            RefOut::Err(RefErr::Empty(_)) => self.fam.bump("empty"),
            _ => {}
        }
        if self.fam.want_sample() {
            self.rep.sample(format!("{} parse::<{}> radix {} {:?} -> {:?}", self.fam.name, T::NAME, radix, show_bytes(s), exp_c));
        }
        for (oi, o) in self.opts.iter().enumerate() {
            // complete
            let mut entries: Vec<(&str, Got, RefOut)> = Vec::new();
            self.fam.calls += 2;
            let r = guarded(|| parse_radix::<T>(s, radix, o));
            let got_c = match r {
                Ok(Ok(v)) => Got::Ok(v.to_ival().norm(), s.len()),
                Ok(Err(e)) => conv_err(e),
                Err(p) => Got::Other(format!("panic: {p}")),
            };
            entries.push(("parse", got_c, exp_c));
            let r = guarded(|| parse_partial_radix::<T>(s, radix, o));
            let got_p = match r {
                Ok(Ok((v, n))) => Got::Ok(v.to_ival().norm(), n),
                Ok(Err(e)) => conv_err(e),
                Err(p) => Got::Other(format!("panic: {p}")),
            };
            entries.push(("parse_partial", got_p, exp_p));
            if radix == 10 && oi == 0 {
                // default-format entry points
                self.fam.calls += 2;
                let r = guarded(|| lexical_core::parse::<T>(s));
                let g = match r {
                    Ok(Ok(v)) => Got::Ok(v.to_ival().norm(), s.len()),
                    Ok(Err(e)) => conv_err(e),
                    Err(p) => Got::Other(format!("panic: {p}")),
                };
                entries.push(("parse_default", g, exp_c));
                let r = guarded(|| lexical_core::parse_partial::<T>(s));
                let g = match r {
                    Ok(Ok((v, n))) => Got::Ok(v.to_ival().norm(), n),
                    Ok(Err(e)) => conv_err(e),
                    Err(p) => Got::Other(format!("panic: {p}")),
                };
                entries.push(("parse_partial_default", g, exp_p));
            }
            for (entry, got, exp) in entries {
                let ok = match (&got, &exp) {
                    (Got::Ok(v, n), RefOut::Ok(ev, en)) => v == ev && n == en,
                    (Got::Err(e), RefOut::Err(ee)) => e == ee,
                    (Got::Ok(_, n), RefOut::Unspecified) => *n <= s.len(),
                    (Got::Err(RefErr::Empty(i)), RefOut::Unspecified) => *i <= s.len(),
                    (Got::Err(RefErr::InvalidDigit(i)), RefOut::Unspecified) => *i <= s.len(),
                    _ => false,
                };
                if !ok {
                    self.rep.violation(
                        format!("{}|{}|r{}|nmd{}|{}", T::NAME, entry, radix, oi, hex(s)),
                        format!("C04 {}::<{}> radix {} no_multi_digit={} on {:?} = {:?} ; reference {:?}", entry, T::NAME, radix, oi == 1, show_bytes(s), got, exp),
                    );
                }
            }
        }
    }
    fn done(self) {
        self.fam.finish();
    }
}

fn sigma_int(radix: u32) -> Vec<Vec<u8>> {
    let mut a: Vec<Vec<u8>> = vec![b"+".to_vec(), b"-".to_vec(), b"0".to_vec(), b"1".to_vec()];
    let maxd = digit_char(radix - 1);
    if radix > 2 {
        a.push(vec![maxd]);
    }
    if maxd.is_ascii_alphabetic() {
        a.push(vec![maxd.to_ascii_lowercase()]);
    }
    // lowest non-digit
    if radix < 36 {
        a.push(vec![digit_char(radix)]);
    } else {
        a.push(b"[".to_vec());
    }
    a.push(b"_".to_vec());
    a.push(vec![0xFF]);
    a
}

fn big_numeral(b: &Big, radix: u32) -> Vec<u8> {
    b.to_digits(radix)
}

fn variants(num: &[u8], neg: bool, radix: u32) -> Vec<Vec<u8>> {
    let mut out = Vec::new();
    let sign: &[u8] = if neg { b"-" } else { b"" };
    let mk = |body: &[u8]| {
        let mut v = sign.to_vec();
        v.extend_from_slice(body);
        v
    };
    out.push(mk(num));
    out.push(mk(&num.to_ascii_lowercase()));
    for z in [1usize, 8, 40] {
        let mut b = vec![b'0'; z];
        b.extend_from_slice(num);
        out.push(mk(&b));
    }
    if !neg {
        let mut b = b"+".to_vec();
        b.extend_from_slice(num);
        out.push(b);
    }
    let mut b = num.to_vec();
    b.push(b'x' + if radix > 33 { 5 } else { 0 }); // junk byte ('x' is a digit in radix >= 34 -> use '}')
    out.push(mk(&b));
    if radix < 36 {
        let mut b = num.to_vec();
        b.push(digit_char(radix)); // valid digit of a larger radix
        out.push(mk(&b));
    }
    let mut b = num.to_vec();
    b.push(b'0');
    out.push(mk(&b)); // one more digit
    // embedded invalid byte at each of the last 3 positions
    for k in 0..3usize.min(num.len()) {
        for inv in [b'/', b':', b'_', 0x80u8, b' '] {
            let mut b = num.to_vec();
            let pos = num.len() - 1 - k;
            b[pos] = inv;
            out.push(mk(&b));
            let mut b = num.to_vec();
            b.insert(pos, inv);
            out.push(mk(&b));
        }
    }
    out
}

fn run_type<T: Int>(rep: &Report, cli: &Cli) {
    let thorough = cli.tier == "thorough";
    let all = supported_radices();
    let depth = if thorough { 7 } else { 5 };
    let s_radices: Vec<u32> = if thorough && matches!(T::NAME, "u8" | "i8" | "u64" | "i128") {
        all.clone()
    } else {
        [2u32, 8, 10, 16, 17, 36].into_iter().filter(|r| all.contains(r)).collect()
    };
    // (i) S
    par_items(&s_radices, cli.threads, |_, &radix| {
        let mut c = Ck::new(rep, &format!("{}:S", T::NAME));
        let alpha = sigma_int(radix);
        let alpha_ref: Vec<&[u8]> = alpha.iter().map(|v| &v[..]).collect();
        gen::for_each_string(&alpha_ref, depth, &mut |s: &[u8]| c.check::<T>(s, radix));
        c.done();
    });
    // (ii) NUM, (iii) FILL
    par_items(&all, cli.threads, |_, &radix| {
        let mut c = Ck::new(rep, &format!("{}:NUM", T::NAME));
        for neg in [false, true] {
            if neg && !T::TY.signed {
                continue;
            }
            let max = T::TY.max_mag(neg);
            let mags = if T::TY.bits <= 16 {
                vec![0, 1, max, max - 1, max / 2]
            } else {
                gen::int_magnitudes(max, radix, if thorough { 2 } else { 1 })
            };
            for m in mags {
                for v in variants(&numeral_mag(m, radix), neg, radix) {
                    c.check::<T>(&v, radix);
                }
            }
            // beyond the range: MAX+1, MAX+r, (MAX+1)*r, MAX*r + (r-1)
            let bmax = Big::from_u128(max);
            let mut b1 = bmax.clone();
            b1.add_small(1);
            let mut b2 = bmax.clone();
            b2.add_small(radix as u64);
            let mut b3 = b1.clone();
            b3.mul_small(radix as u64);
            let mut b4 = bmax.clone();
            b4.mul_small(radix as u64);
            b4.add_small(radix as u64 - 1);
            for b in [b1, b2, b3, b4] {
                for v in variants(&big_numeral(&b, radix), neg, radix) {
                    c.check::<T>(&v, radix);
                }
            }
        }
        c.done();
        let mut c = Ck::new(rep, &format!("{}:FILL", T::NAME));
        // number of digits of MAX
        let ndig = numeral_mag(T::TY.max_mag(false), radix).len();
        for len in 1..=ndig + 3 {
            for d in [digit_char(radix - 1), b'1', digit_char(radix / 2)] {
                let body = vec![d; len];
                c.check::<T>(&body, radix);
                let mut n = b"-".to_vec();
                n.extend_from_slice(&body);
                c.check::<T>(&n, radix);
                // leading 1 then zeros (power of the radix)
                let mut p = vec![b'0'; len];
                p[0] = b'1';
                c.check::<T>(&p, radix);
                let mut n = b"-".to_vec();
                n.extend_from_slice(&p);
                c.check::<T>(&n, radix);
            }
        }
        c.done();
    });
    // (iii-b) PAT: numerals with every adjacent digit pair at every position, and ascending /
    // descending digit patterns of every length (also 1..3 digits longer than MAX: overflow)
    if T::TY.bits > 16 {
        par_items(&all, cli.threads, |_, &radix| {
            let mut c = Ck::new(rep, &format!("{}:PAT", T::NAME));
            for iv in harness::intglue::pair_values::<T>(radix) {
                let mut s: Vec<u8> = if iv.neg { b"-".to_vec() } else { Vec::new() };
                s.extend(numeral_mag(iv.mag, radix));
                c.check::<T>(&s, radix);
                if radix > 10 && iv.mag % 7 == 0 {
                    c.check::<T>(&s.to_ascii_lowercase(), radix);
                }
            }
            let ndig = numeral_mag(T::TY.max_mag(false), radix).len();
            for len in ndig.saturating_sub(1)..=ndig + 3 {
                for neg in [false, true] {
                    let mut s: Vec<u8> = if neg { b"-".to_vec() } else { Vec::new() };
                    s.extend((0..len).map(|i| digit_char((i as u32 % (radix - 1)) + 1)));
                    c.check::<T>(&s, radix);
                    let mut s: Vec<u8> = if neg { b"-".to_vec() } else { Vec::new() };
                    s.extend((0..len).map(|i| digit_char(((len - 1 - i) as u32 % (radix - 1)) + 1)));
                    c.check::<T>(&s, radix);
                }
            }
            c.done();
        });
    }
    // (iii-c) BYTE: every byte value before, between and after digits (digit classification of all
    // 256 byte values in every radix, also inside the 4/8-byte blocks of the multi-digit paths)
    par_items(&all, cli.threads, |_, &radix| {
        let mut c = Ck::new(rep, &format!("{}:BYTE", T::NAME));
        for b in 0..=255u8 {
            for shape in [&[b][..], &[b'1', b], &[b, b'1'], &[b'1', b, b'1'], &[b'-', b'1', b], &[b'1', b'1', b'1', b, b'1', b'1', b'1', b'1', b'1'], &[b'1', b'1', b'1', b'1', b'1', b'1', b'1', b, b'1']] {
                c.check::<T>(shape, radix);
            }
        }
        c.done();
    });
    // (iv) RANGE for 8/16-bit
    if T::TY.bits <= 16 {
        let radices: Vec<u32> = if thorough { all.clone() } else { s_radices.clone() };
        par_items(&radices, cli.threads, |_, &radix| {
            let mut c = Ck::new(rep, &format!("{}:RANGE", T::NAME));
            for m in 0..=70_000u128 {
                c.check::<T>(&numeral_mag(m, radix), radix);
                if m != 0 {
                    let mut n = b"-".to_vec();
                    n.extend(numeral_mag(m, radix));
                    c.check::<T>(&n, radix);
                }
            }
            c.done();
        });
    }
}

fn replay(rep: &Report, key: &str) {
    let p: Vec<&str> = key.split('|').collect();
    let radix: u32 = p[2][1..].parse().unwrap();
    let s = unhex(p[4]);
    fn go<T: Int>(rep: &Report, name: &str, s: &[u8], radix: u32) {
        if T::NAME == name {
            let mut c = Ck::new(rep, "replay");
            c.check::<T>(s, radix);
            c.done();
        }
    }
    harness::for_each_int_type!(go, rep, p[0], &s, radix);
}

fn main() {
    let cli = parse_cli();
    silence_panics();
    let rep = Report::new("C04", config_name(), &cli.tier);
    if let Err(e) = vkit::self_check_all() {
        rep.machinery_error(format!("self-check: {e}"));
        finish(&rep, &cli);
    }
    if let Some(key) = &cli.replay {
        replay(&rep, key);
        finish(&rep, &cli);
    }
    harness::for_each_int_type!(run_type, &rep, &cli);
    finish(&rep, &cli);
}
