//! C05 — non-decimal radix string->float is correctly rounded (radix 2..36, mixed-base formats).

use harness::common::*;
use harness::floatfam::radixsub::*;
use harness::floatfam::*;
use vkit::out::*;

fn run_radix<T: Flt>(rep: &Report, cli: &Cli, radix: u32) {
    let thorough = cli.tier == "thorough";
    let (sub, spell) = match radix_subject::<T>(radix, false) {
        Some(x) => x,
        None => return,
    };
    let th = cli.threads;
    let mk = |fam: &'static str, suffixes: bool| {
        let spell = spell.clone();
        let sub = sub.clone();
        move || {
            let mut c = RoundChecker::<T>::new("C05", rep, &sub, &spell, fam);
            c.partial_suffixes = suffixes;
            c
        }
    };
    let (qlo, qhi) = spell.exp_range(T::FMT, 8);
    // keep the number of significands comparable across radices
    let d: u32 = if thorough {
        if radix <= 6 { 6 } else if radix <= 16 { 4 } else { 3 }
    } else if radix <= 4 { 6 } else if radix <= 10 { 3 } else { 2 };
    fam_me(&spell, d, qlo - d as i64, qhi, th, &mk("ME", false));
    fam_me_variants(&spell, 1, qlo, qhi, th, &mk("MEV", false));
    if !radix.is_power_of_two() {
        fam_cf(&spell, T::FMT, if thorough { 12 } else { 3 }, qlo - 14, qhi, th, &mk("CF", false));
    }
    fam_hw(&spell, T::FMT, if thorough { 1 } else { 0 }, if thorough { 1 } else { 4 }, th, &mk("HW", false));
    fam_bd(&spell, T::FMT, &mk("BD", true));
    fam_wrap(&spell, T::FMT, &mk("WRAP", false));
}

fn run_mixed<T: Flt>(rep: &Report, cli: &Cli) {
    let thorough = cli.tier == "thorough";
    for (sub, spell) in mixed_subjects::<T>(false) {
        let mk = |fam: &'static str| {
            let spell = spell.clone();
            let sub = sub.clone();
            move || RoundChecker::<T>::new("C05", rep, &sub, &spell, fam)
        };
        fam_mixed(&spell, T::FMT, if thorough { 3 } else { 2 }, if thorough { 1 } else { 0 }, cli.threads, &mk("MIXED"));
    }
}

fn main() {
    let cli = parse_cli();
    silence_panics();
    let rep = Report::new("C05", config_name(), &cli.tier);
    if let Err(e) = vkit::self_check_all() {
        rep.machinery_error(format!("self-check: {e}"));
        finish(&rep, &cli);
    }
    if let Some(key) = &cli.replay {
        // key: type|entry|subject|hex
        let parts: Vec<&str> = key.split('|').collect();
        let name = parts[2];
        let input = unhex(parts[3]);
        fn go<T: Flt>(rep: &Report, name: &str, input: &[u8]) {
            let mut all: Vec<(Subject<T>, Spell)> = mixed_subjects::<T>(false);
            for r in 2..=36 {
                if let Some(x) = radix_subject::<T>(r, false) {
                    all.push(x);
                }
            }
            for (sub, spell) in all {
                if sub.name == name {
                    let g = spell.grammar();
                    let mut s = input.to_vec();
                    while !s.is_empty() && vkit::simple::parse_full(&g, &s).is_none() {
                        s.pop();
                    }
                    let mut c = RoundChecker::<T>::new("C05", rep, &sub, &spell, "replay");
                    c.partial_suffixes = true;
                    c.check(&s);
                    c.done();
                }
            }
        }
        if parts[0] == "f64" {
            go::<f64>(&rep, name, &input);
        } else {
            go::<f32>(&rep, name, &input);
        }
        finish(&rep, &cli);
    }
    let radices: Vec<u32> = if cfg!(feature = "radix") { (2..=36).filter(|&r| r != 10).collect() } else { vec![2, 4, 8, 16, 32] };
    for r in radices {
        run_radix::<f64>(&rep, &cli, r);
        run_radix::<f32>(&rep, &cli, r);
    }
    run_mixed::<f64>(&rep, &cli);
    run_mixed::<f32>(&rep, &cli);
    finish(&rep, &cli);
}
