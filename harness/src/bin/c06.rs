//! C06 — power-of-two radix float output is exact and round-trips (radix 2,4,8,16,32 and the
//! mixed-base formats), in positional and exponent notation.
//! C07 — generic-radix float output well-formed, near-exact, exact for integers.
//! (one binary, selected by --prop)

use harness::common::*;
use harness::fmtcat::*;
use harness::valfam::*;
use lexical_core::{ParseFloatOptions, WriteFloatOptions};
use std::cmp::Ordering;
use std::num::NonZeroI32;
use vkit::float::{cmp_scaled, Class};
use vkit::out::*;
use vkit::par::par_chunks;
use vkit::simple::{parse_full, Expect, Grammar, Judge};

#[derive(Clone, Copy, PartialEq, Eq, Debug)]
enum Notation {
    Default,
    MostlyExponent,
    NeverExponent,
}

fn wopts(fmt_exp: u8, n: Notation) -> WriteFloatOptions {
    let b = WriteFloatOptions::builder().exponent(fmt_exp);
    let b = match n {
        Notation::Default => b,
        Notation::MostlyExponent => b.positive_exponent_break(NonZeroI32::new(1)).negative_exponent_break(NonZeroI32::new(-1)),
        Notation::NeverExponent => b.positive_exponent_break(NonZeroI32::new(1100)).negative_exponent_break(NonZeroI32::new(-1100)),
    };
    b.build().expect("valid write options")
}

struct Ck<'a, T: Flt> {
    prop: &'static str,
    rep: &'a Report,
    fam: Fam<'a>,
    fmt: FloatFmt<T>,
    g: Grammar,
    j: Judge,
    wo: [(Notation, WriteFloatOptions); 3],
    po: ParseFloatOptions,
    buf: Vec<u8>,
    pow2: bool,
}

impl<'a, T: Flt> Ck<'a, T> {
    fn new(prop: &'static str, rep: &'a Report, fmt: FloatFmt<T>, fam: &str) -> Self {
        let ec = fmt.exp_char();
        let wo = [
            (Notation::Default, wopts(ec, Notation::Default)),
            (Notation::MostlyExponent, wopts(ec, Notation::MostlyExponent)),
            (Notation::NeverExponent, wopts(ec, Notation::NeverExponent)),
        ];
        let po = ParseFloatOptions::builder().exponent(ec).nan_string(None).inf_string(None).infinity_string(None).build().expect("parse options");
        let max = wo.iter().map(|(_, o)| (fmt.bufsize)(o)).max().unwrap();
        let mut g = Grammar::radix(fmt.radix, fmt.exp_radix, ec);
        g.point = b'.';
        Ck {
            prop,
            rep,
            fam: Fam::new(rep, &format!("{}:{}:{}", T::NAME, fmt.name, fam)),
            fmt,
            g,
            j: Judge::new(fmt.radix, fmt.base),
            wo,
            po,
            buf: vec![0u8; max],
            pow2: fmt.radix.is_power_of_two(),
        }
    }
    fn check(&mut self, bits: u64) {
        let f = T::FMT;
        let v = T::from_bits64(bits);
        self.fam.states += 1;
        let (m, e) = match f.classify(f.abs(bits)) {
            Class::Finite(m, e) => (m, e),
            Class::Zero => (0, 0),
            _ => return,
        };
        for i in 0..3 {
            let (n, o) = (self.wo[i].0, self.wo[i].1.clone());
            let size = (self.fmt.bufsize)(&o);
            let key = format!("{}|{}|{:?}|{:#x}", T::NAME, self.fmt.name, n, bits);
            self.fam.cases += 1;
            self.fam.calls += 1;
            let fmt = self.fmt;
            let buf = &mut self.buf[..size];
            let r = guarded(|| {
                let n = (fmt.write)(v, buf, &o);
                buf[..n].to_vec()
            });
            let out = match r {
                Ok(o) => o,
                Err(p) => {
                    self.rep.violation(key, format!("{} write {:#x} [{} {:?}] panicked with the documented buffer size {}: {}", self.prop, bits, self.fmt.name, n, size, p));
                    continue;
                }
            };
            if self.fam.want_sample() {
                self.rep.sample(format!("{} {:#x} {:?} -> {}", self.fam.name, bits, n, show_bytes(&out)));
            }
            // well-formed: digits of the radix, at most one point, at most one exponent
            let x = match parse_full(&self.g, &out) {
                Some(x) => x,
                None => {
                    self.rep.violation(key, format!("{} write {:#x} [{} {:?}] = {:?}: not a well-formed numeral of the radix", self.prop, bits, self.fmt.name, n, show_bytes(&out)));
                    continue;
                }
            };
            if x.has_exp {
                self.fam.bump("exponent_notation");
                self.fam.nontrivial += 1;
            } else {
                self.fam.bump("positional");
            }
            if x.neg != f.is_neg(bits) {
                self.rep.violation(key, format!("{} write {:#x} [{}] = {:?}: wrong sign", self.prop, bits, self.fmt.name, show_bytes(&out)));
                continue;
            }
            // exact value of the output
            let (ex, rat, _) = self.j.value(f, &x);
            let exact_ok = match (ex, &rat) {
                // a zero output is exact for zero; for generic radices it is also within the
                // stated ulp distance of the tiniest subnormals
                (Expect::Zero, None) => m == 0 || (!self.pow2 && m < if f.mant_bits == 52 { 2048 } else { 256 } && e == f.emin()),
                (Expect::Rounded, Some(r)) => {
                    if self.pow2 {
                        m != 0 && cmp_scaled(r, m, e) == Ordering::Equal
                    } else {
                        // |r - m*2^e| < ulps * 2^e ; integers below 2^(mant_bits+1) exact
                        let ulps: u64 = if f.mant_bits == 52 { 2048 } else { 256 };
                        let is_small_int = e <= 0 && m != 0 && (e == 0 || (m & ((1u64 << (-e).min(63)) - 1)) == 0 && -e < 64);
                        if m == 0 {
                            false
                        } else if is_small_int {
                            cmp_scaled(r, m, e) == Ordering::Equal
                        } else {
                            let hi = cmp_scaled(r, m + ulps, e) == Ordering::Less;
                            let lo = m <= ulps || cmp_scaled(r, m - ulps, e) == Ordering::Greater;
                            hi && lo
                        }
                    }
                }
                _ => false,
            };
            if !exact_ok {
                self.rep.violation(
                    key,
                    format!(
                        "{} write {:#x} ({}) [{} {:?}] = {:?}: {}",
                        self.prop,
                        bits,
                        v.std_display(),
                        self.fmt.name,
                        n,
                        show_bytes(&out),
                        if self.pow2 { "does not denote the float exactly" } else { "too far from the float (or an integer not written exactly)" }
                    ),
                );
                continue;
            }
            // accepted by lexical's own parser in the same format; identical bits for 2^k radices
            self.fam.calls += 1;
            let po = self.po.clone();
            let r = guarded(|| (fmt.parse)(&out, &po));
            match r {
                Ok(Ok(back)) => {
                    if self.pow2 && back.to_bits64() != bits {
                        self.rep.violation(key, format!("{} [{} {:?}] {:#x} -> {:?} -> {:#x}: round trip differs", self.prop, self.fmt.name, n, bits, show_bytes(&out), back.to_bits64()));
                    }
                }
                Ok(Err(e)) => {
                    self.rep.violation(key, format!("{} [{} {:?}] output {:?} of {:#x} rejected by the parser of the same format: {:?}", self.prop, self.fmt.name, n, show_bytes(&out), bits, e));
                }
                Err(p) => {
                    self.rep.violation(key, format!("{} [{} {:?}] parser panicked on {:?}: {}", self.prop, self.fmt.name, n, show_bytes(&out), p));
                }
            }
        }
    }
    fn done(self) {
        self.fam.finish();
    }
}

fn values<T: Flt>(thorough: bool, radix: u32, c07: bool) -> Vec<u64> {
    let f = T::FMT;
    let mut v = bd_values(f);
    v.push(0);
    v.extend(bin_values(f, if thorough { 2 } else { 1 }));
    if c07 {
        // integers 0..2^16, r^k-1, r^k, r^k+1 below 2^(mant+1), values just below a power of the radix
        let lim = 1u64 << (f.mant_bits + 1);
        for n in 1..(1u64 << if thorough { 16 } else { 12 }) {
            v.push(T::std_parse(&n.to_string()).unwrap());
        }
        let mut p: u64 = 1;
        while p < lim {
            for d in [p - 1, p, p + 1] {
                if d > 0 && d < lim {
                    v.push(T::std_parse(&d.to_string()).unwrap());
                }
            }
            // r^k * (1 - 2^-j): just below a power of the radix
            let pb = T::std_parse(&p.to_string()).unwrap();
            for j in 1..=8u64 {
                if pb > j {
                    v.push(pb - j);
                }
            }
            p = match p.checked_mul(radix as u64) {
                Some(x) => x,
                None => break,
            };
        }
        // negative powers of the radix and their predecessors
        let mut x = 1.0f64;
        for _ in 0..40 {
            x /= radix as f64;
            let b = T::std_parse(&format!("{:e}", x)).unwrap();
            if b > 8 && b < f.inf_bits() {
                for j in 0..=4 {
                    v.push(b - j);
                    v.push(b + j);
                }
            }
        }
    }
    let n = v.len();
    for i in (0..n).step_by(37) {
        let b = v[i];
        v.push(b | f.sign_mask());
    }
    v.sort_unstable();
    v.dedup();
    v
}

fn run<T: Flt>(rep: &Report, cli: &Cli, prop: &'static str) {
    let thorough = cli.tier == "thorough";
    let c07 = prop == "C07";
    let mut fmts: Vec<FloatFmt<T>> = radix_formats::<T>().into_iter().filter(|f| f.radix != 10 && (f.radix.is_power_of_two() != c07)).collect();
    if !c07 {
        fmts.extend(mixed_formats::<T>());
    }
    for fmt in fmts {
        let vals = values::<T>(thorough, fmt.radix, c07);
        par_chunks(vals.len() as u64, 512, cli.threads, |_, r| {
            let mut c = Ck::<T>::new(prop, rep, fmt, "VAL");
            for i in r {
                c.check(vals[i as usize]);
            }
            c.done();
        });
    }
}

fn replay<T: Flt>(rep: &Report, prop: &'static str, name: &str, bits: u64) {
    let mut fmts = radix_formats::<T>();
    fmts.extend(mixed_formats::<T>());
    for fmt in fmts {
        if fmt.name == name {
            let mut c = Ck::<T>::new(prop, rep, fmt, "replay");
            c.check(bits);
            c.done();
        }
    }
}

fn main() {
    let cli = parse_cli();
    silence_panics();
    let prop: &'static str = if cli.extra.iter().any(|a| a == "--c07") { "C07" } else { "C06" };
    let rep = Report::new(prop, config_name(), &cli.tier);
    if let Err(e) = vkit::self_check_all() {
        rep.machinery_error(format!("self-check: {e}"));
        finish(&rep, &cli);
    }
    if let Some(key) = &cli.replay {
        let p: Vec<&str> = key.split('|').collect();
        let bits = u64::from_str_radix(p[3].trim_start_matches("0x"), 16).unwrap();
        if p[0] == "f64" {
            replay::<f64>(&rep, prop, p[1], bits);
        } else {
            replay::<f32>(&rep, prop, p[1], bits);
        }
        finish(&rep, &cli);
    }
    run::<f64>(&rep, &cli, prop);
    run::<f32>(&rep, &cli, prop);
    finish(&rep, &cli);
}
