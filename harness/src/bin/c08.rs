//! C08 — what lexical writes, lexical parses back to the same value in the same format.

use harness::common::*;
use harness::fmtcat::*;
use harness::intglue::*;
use lexical_core::{ParseFloatOptions, ParseIntegerOptions, WriteFloatOptions};
use std::num::NonZeroI32;
use vkit::gen;
use vkit::intref::IVal;
use vkit::out::*;
use vkit::par::par_items;

#[derive(Clone)]
struct OptPair {
    name: String,
    w: WriteFloatOptions,
    p: ParseFloatOptions,
    nan: bool,
    inf: bool,
}

fn is_digit(c: u8, radix: u32) -> bool {
    matches!(vkit::big::digit_value(c), Some(d) if d < radix)
}

fn opt_pairs<T>(f: &FloatFmt<T>, thorough: bool) -> Vec<OptPair> {
    let big = f.radix.max(f.exp_radix);
    // valid punctuation for this format: not a digit, not the separator / prefix / suffix byte
    let ok = |c: u8| !is_digit(c, big) && c != f.sep && !(f.prefix != 0 && c == f.prefix) && !(f.suffix != 0 && c == f.suffix);
    let mut points: Vec<u8> = vec![b'.', b',', b';', b' '];
    let mut exps: Vec<u8> = vec![b'e', b'E', b'^', b'P', b'p', b'\t'];
    points.retain(|&c| ok(c));
    exps.retain(|&c| ok(c));
    if !thorough {
        points.truncate(2);
        // a lower-case letter, an upper-case letter and a non-letter wherever the radix leaves them
        exps.truncate(3);
    }
    let specials: Vec<(Option<&'static [u8]>, Option<&'static [u8]>, Option<&'static [u8]>)> = vec![
        (Some(b"NaN"), Some(b"inf"), Some(b"infinity")),
        (Some(b"nil"), Some(b"Inf"), Some(b"Infinity")),
        (None, None, None),
        (Some(b"n"), Some(b"i"), Some(b"i")),
    ];
    let breaks: Vec<(Option<i32>, Option<i32>)> = if f.radix == 2 { vec![(None, None), (Some(-1), Some(1)), (Some(-1100), Some(1100))] } else { vec![(None, None), (Some(-1), Some(1)), (Some(-400), Some(400))] };
    let mut v = Vec::new();
    for &pt in &points {
        for &ec in &exps {
            if pt == ec {
                continue;
            }
            for (si, sp) in specials.iter().enumerate() {
                // NOTE: special strings whose letters are digits of the radix are kept: a word made
                // only of digits gets its own violation key below (known finding), the others must
                // round-trip like any other special string.
                for trim in [false, true] {
                    for &(nb, pb) in &breaks {
                        if !thorough && (si > 1 || trim) && (pt != b'.' || nb.is_some()) {
                            continue;
                        }
                        let w = WriteFloatOptions::builder()
                            .decimal_point(pt)
                            .exponent(ec)
                            .nan_string(sp.0)
                            .inf_string(sp.1)
                            .trim_floats(trim)
                            .negative_exponent_break(nb.and_then(NonZeroI32::new))
                            .positive_exponent_break(pb.and_then(NonZeroI32::new))
                            .build();
                        let p = ParseFloatOptions::builder().decimal_point(pt).exponent(ec).nan_string(sp.0).inf_string(sp.1).infinity_string(sp.2).build();
                        if let (Ok(w), Ok(p)) = (w, p) {
                            v.push(OptPair { name: format!("point={:?} exp={:?} specials#{} trim={} breaks={:?}", pt as char, ec as char, si, trim, (nb, pb)), w, p, nan: sp.0.is_some(), inf: sp.1.is_some() });
                        }
                    }
                }
            }
        }
    }
    v
}

fn values<T: Flt>(thorough: bool) -> Vec<u64> {
    let f = T::FMT;
    let mut v = harness::valfam::bd_values(f);
    v.extend(harness::valfam::bin_values(f, 0));
    let step = if thorough { 2 } else { 11 };
    let mut out: Vec<u64> = v.iter().step_by(step).copied().collect();
    out.extend([0, 1, f.max_finite_bits(), f.inf_bits(), f.inf_bits() | 1, f.inf_bits() | f.mant_mask()]);
    for s in ["0.1", "1", "10", "123456.789", "1e21", "1e-7", "9.999999999999999e22", "0.3", "1e9", "1e10", "1e-5", "1e-6", "100000", "1.5", "2.5e-5"] {
        if let Some(b) = T::std_parse(s) {
            out.push(b);
        }
    }
    out.sort_unstable();
    out.dedup();
    let n = out.len();
    for i in 0..n {
        let b = out[i];
        if i % 3 == 0 || f.abs(b) == 0 || f.abs(b) >= f.inf_bits() {
            out.push(b | f.sign_mask());
        }
    }
    out
}

fn run_floats<T: Flt>(rep: &Report, cli: &Cli, replay: Option<(&str, usize, u64)>) {
    let thorough = cli.tier == "thorough";
    let mut fmts: Vec<FloatFmt<T>> = vec![standard::<T>()];
    fmts.extend(writer_formats::<T>());
    fmts.extend(radix_formats::<T>().into_iter().filter(|f| f.radix != 10));
    fmts.extend(mixed_formats::<T>());
    #[cfg(all(feature = "format", feature = "prebuiltw"))]
    {
        if thorough || replay.is_some() {
            fmts.extend(harness::gen::prebuilt_writers::<T>());
        } else {
            // quick: prebuilt formats with distinct writer-relevant flag vectors
            let mut seen = std::collections::BTreeSet::new();
            for f in harness::gen::prebuilt_writers::<T>() {
                let nf = (f.radix, f.base, f.exp_radix, f.required_exponent_notation, f.no_exponent_notation, f.required_mantissa_sign, f.required_exponent_sign, f.no_positive_mantissa_sign, f.no_special, f.format & 0xFFFF_FFFF);
                if seen.insert(nf) {
                    fmts.push(f);
                }
            }
        }
    }
    let vals = values::<T>(thorough);
    let idx: Vec<usize> = (0..fmts.len()).collect();
    par_items(&idx, cli.threads, |_, &fi| {
        let f = fmts[fi];
        if let Some((name, _, _)) = replay {
            if f.name != name {
                return;
            }
        }
        let mut fam = Fam::new(rep, &format!("C08:{}:{}", T::NAME, if f.name.chars().next().unwrap().is_uppercase() && f.name != "STANDARD" { "PREBUILT" } else { f.name }));
        let pairs = opt_pairs(&f, thorough);
        let pow2 = f.radix.is_power_of_two();
        let fm = T::FMT;
        for (oi, op) in pairs.iter().enumerate() {
            if let Some((_, ri, _)) = replay {
                if ri != oi {
                    continue;
                }
            }
            let size = (f.bufsize)(&op.w);
            let mut buf = vec![0u8; size];
            for &bits in &vals {
                if let Some((_, _, rb)) = replay {
                    if rb != bits {
                        continue;
                    }
                }
                let v = T::from_bits64(bits);
                let is_nan = fm.is_nan(bits);
                let is_inf = fm.abs(bits) == fm.inf_bits();
                // writing a disabled special panics by documentation: excluded
                if (is_nan && !op.nan) || (is_inf && !op.inf) {
                    continue;
                }
                // the format must permit specials for them to be read back
                if (is_nan || is_inf) && f.no_special {
                    continue;
                }
                fam.states += 1;
                fam.cases += 1;
                fam.calls += 2;
                let mut key = format!("{}|{}|{}|{:#x}", T::NAME, f.name, oi, bits);
                let w = f.write;
                let out = match guarded(|| {
                    let n = w(v, &mut buf[..], &op.w);
                    buf[..n].to_vec()
                }) {
                    Ok(o) => o,
                    Err(p) => {
                        rep.violation(key, format!("C08 [{}] {} : write {:#x} panicked: {}", f.name, op.name, bits, p));
                        continue;
                    }
                };
                if fam.want_sample() {
                    rep.sample(format!("{} [{}] {} {:#x} -> {:?}", fam.name, f.name, op.name, bits, show_bytes(&out)));
                }
                if is_nan || is_inf {
                    let word: &[u8] = if matches!(out.first(), Some(b'-') | Some(b'+')) { &out[1..] } else { &out[..] };
                    if !word.is_empty() && word.iter().all(|&c| is_digit(c, f.radix)) {
                        // the written special string is itself a numeral of the radix
                        key = format!("{}|{}|numeral-special|{}:{:#x}", T::NAME, f.name, oi, bits);
                    }
                }
                let pr = f.parse;
                match guarded(|| pr(&out, &op.p)) {
                    Ok(Ok(back)) => {
                        let bb = back.to_bits64();
                        let exact_required = pow2 || f.radix == 10 || fm.abs(bits) == 0 || is_inf;
                        fam.nontrivial += 1;
                        let same = if is_nan { fm.is_nan(bb) } else { bb == bits };
                        if (exact_required || is_nan) && !same {
                            rep.violation(key.clone(), format!("C08 [{}] {} : {:#x} written as {:?} parses back as {:#x}", f.name, op.name, bits, show_bytes(&out), bb));
                        }
                    }
                    Ok(Err(e)) => {
                        rep.violation(key.clone(), format!("C08 [{}] {} : {:#x} written as {:?} is rejected by the parser of the same format: {:?}", f.name, op.name, bits, show_bytes(&out), e));
                    }
                    Err(p) => {
                        rep.violation(key.clone(), format!("C08 [{}] {} : parser panicked on {:?}: {}", f.name, op.name, show_bytes(&out), p));
                    }
                }
            }
        }
        fam.finish();
    });
}

fn run_ints<T: Int>(rep: &Report, cli: &Cli) {
    let thorough = cli.tier == "thorough";
    let mut fam = Fam::new(rep, &format!("C08:{}:int", T::NAME));
    let po = ParseIntegerOptions::new();
    let mut buf = [0u8; 300];
    for radix in supported_radices() {
        let mut vals: Vec<IVal> = Vec::new();
        for m in gen::int_magnitudes(T::TY.max_mag(false), radix, if thorough { 2 } else { 1 }) {
            vals.push(IVal { neg: false, mag: m });
        }
        if T::TY.signed {
            for m in gen::int_magnitudes(T::TY.max_mag(true), radix, if thorough { 2 } else { 1 }) {
                if m != 0 {
                    vals.push(IVal { neg: true, mag: m });
                }
            }
        }
        for iv in vals {
            let v = T::from_ival(iv).unwrap();
            fam.states += 1;
            fam.cases += 1;
            fam.calls += 2;
            fam.nontrivial += 1;
            let out = write_radix(v, radix, &mut buf).to_vec();
            match parse_radix::<T>(&out, radix, &po) {
                Ok(b) if b.to_ival().norm() == iv.norm() => {}
                other => {
                    rep.violation(format!("{}|int|r{}|{}", T::NAME, radix, iv.show()), format!("C08 {} {} radix {} written as {:?} parses back as {:?}", T::NAME, iv.show(), radix, show_bytes(&out), other.map(|x| x.to_ival().show())));
                }
            }
        }
    }
    if fam.want_sample() {
        rep.sample(format!("{} write_with_options -> parse_with_options in every radix", fam.name));
    }
    fam.finish();
}

fn main() {
    let cli = parse_cli();
    silence_panics();
    let mut rep = Report::new("C08", config_name(), &cli.tier);
    rep.max_per_group = 30;
    rep.max_violations = 5000;
    if let Some(key) = &cli.replay {
        let p: Vec<&str> = key.split('|').collect();
        if p[1] != "int" {
            let (oi_s, bits_s) = if p[2] == "numeral-special" { p[3].split_once(':').unwrap() } else { (p[2], p[3]) };
            let oi: usize = oi_s.parse().unwrap();
            let bits = u64::from_str_radix(bits_s.trim_start_matches("0x"), 16).unwrap();
            if p[0] == "f64" {
                run_floats::<f64>(&rep, &cli, Some((p[1], oi, bits)));
            } else {
                run_floats::<f32>(&rep, &cli, Some((p[1], oi, bits)));
            }
        } else {
            harness::for_each_int_type!(run_ints, &rep, &cli);
        }
        finish(&rep, &cli);
    }
    run_floats::<f64>(&rep, &cli, None);
    run_floats::<f32>(&rep, &cli, None);
    harness::for_each_int_type!(run_ints, &rep, &cli);
    finish(&rep, &cli);
}
