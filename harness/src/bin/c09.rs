//! C09 — writers honour the documented buffer bound and never touch memory outside the slice.
//! Values x formats x write options x buffer lengths, buffers flush against guard pages.

use harness::common::*;
use harness::crash;
use harness::fmtcat::*;
use harness::intglue::*;
use harness::optfam::*;
use harness::valfam::*;
use lexical_core::{FormattedSize, WriteFloatOptions};
use vkit::guard::Guarded;
use vkit::intref::IVal;
use vkit::out::*;
use vkit::par::par_items;

const CANARY: u8 = 0xC3;

struct Ck<'a> {
    rep: &'a Report,
    fam: Fam<'a>,
    g: Guarded,
    slot: usize,
}

impl<'a> Ck<'a> {
    /// One write into a buffer of `len` bytes (both placements). `bound` is the documented size.
    fn float_case<T: Flt>(&mut self, fmt: &FloatFmt<T>, okey: &str, o: &WriteFloatOptions, oshow: &str, bits: u64, len: usize, bound: usize) -> Option<usize> {
        let v = T::from_bits64(bits);
        let mut produced = None;
        for tail in [true, false] {
            self.fam.calls += 1;
            let cap = self.g.capacity();
            self.g.all().fill(CANARY);
            crash::set_current(self.slot, format!("{}|{}|{}|{:#x}|{}", T::NAME, fmt.name, okey, bits, len).as_bytes(), b"");
            let buf: &mut [u8] = if tail { self.g.tail(len) } else { self.g.head(len) };
            let w = fmt.write;
            let r = guarded(|| w(v, buf, o));
            let key = format!("{}|{}|{}|{}|{:#x}", T::NAME, fmt.name, okey, len, bits);
            let (lo, hi) = if tail { (cap - len, cap) } else { (0, len) };
            let all = self.g.all();
            if all[..lo].iter().any(|&b| b != CANARY) || all[hi..].iter().any(|&b| b != CANARY) {
                self.rep.violation(key, format!("C09 write {:#x} ({}) [{}] {} into a {}-byte buffer modified bytes outside the buffer", bits, T::NAME, fmt.name, oshow, len));
                return produced;
            }
            match r {
                Ok(n) => {
                    if n == usize::MAX || n > len || (len >= bound && n > bound) {
                        self.rep.violation(key, format!("C09 write {:#x} ({}) [{}] {} into a {}-byte buffer returned length {} (bound {}){}", bits, T::NAME, fmt.name, oshow, len, n, bound, if n == usize::MAX { " / slice not at buffer start" } else { "" }));
                        return produced;
                    }
                    produced = Some(n);
                }
                Err(p) => {
                    if len >= bound {
                        self.rep.violation(key, format!("C09 write {:#x} ({}) [{}] {} panicked with a buffer of {} bytes >= documented bound {}: {}", bits, T::NAME, fmt.name, oshow, len, bound, p));
                        return produced;
                    }
                    self.fam.bump("short_buffer_panics");
                }
            }
        }
        produced
    }
    fn done(self) {
        self.fam.finish();
    }
}

fn float_values<T: Flt>(level: u32) -> Vec<u64> {
    let f = T::FMT;
    let mut v: Vec<u64> = Vec::new();
    // every 8th / 32nd binade with three mantissa patterns, plus landmarks
    let step = if level >= 2 { 4 } else { 32 };
    let mut ef = 0;
    while ef < f.exp_max_field() {
        for p in [0u64, f.mant_mask(), 0x5555_5555_5555_5555 & f.mant_mask()] {
            let b = (ef << f.mant_bits) | p;
            if b != 0 {
                v.push(b);
            }
        }
        ef += step;
    }
    v.extend([1, 2, f.max_finite_bits(), f.max_finite_bits() - 1, (1u64 << f.mant_bits) - 1, 1u64 << f.mant_bits]);
    // the extremes with a sign byte too (the tight cases of the bound)
    for b in [1, 2, f.max_finite_bits(), (1u64 << f.mant_bits) - 1, 1u64 << f.mant_bits, 0x5555_5555_5555_5555 & f.mant_mask()] {
        v.push(b | f.sign_mask());
    }
    for s in ["0.1", "0.3", "1", "1.5", "9.999999999999999", "0.09999999999999999", "99999.5", "123456789.12345678", "1e21", "1e22", "1e23", "9.5", "0.95", "0.00095", "999999999999999900000", "5e-324", "1e-310", "2.5", "3.5", "0.5", "12345678901234567890", "4.9e-5", "1e-5", "1e-6", "1e9", "1e10"] {
        if let Some(b) = T::std_parse(s) {
            if f.is_finite(b) {
                v.push(b);
            }
        }
    }
    v.push(0);
    v.extend(harness::valfam::break_values::<T>());
    v.sort_unstable();
    v.dedup();
    let n = v.len();
    for i in (0..n).step_by(5) {
        let b = v[i];
        v.push(b | f.sign_mask());
    }
    v
}

/// LIMIT: exponent breaks at the limits of the option type.
fn limit_cases<T: Flt>(rep: &Report) {
    // breaks at the limits of the option type: the bound cannot be exercised with a real buffer,
    // but it must at least cover the zeros the writer is then obliged to produce
    {
        use core::num::NonZeroI32;
        let fmt = standard::<T>();
        let mut c = Ck { rep, fam: Fam::new(rep, &format!("C09:{}:LIMIT", T::NAME)), g: Guarded::new(64), slot: 0 };
        for (name, nb, pb) in [("neg=i32::MIN", NonZeroI32::new(i32::MIN), None), ("neg=-2^31+1", NonZeroI32::new(i32::MIN + 1), None), ("pos=i32::MAX", None, NonZeroI32::new(i32::MAX))] {
            c.fam.states += 1;
            c.fam.cases += 1;
            c.fam.calls += 1;
            c.fam.nontrivial += 1;
            let o = match WriteFloatOptions::builder().negative_exponent_break(nb).positive_exponent_break(pb).build() {
                Ok(o) => o,
                Err(_) => continue, // rejected by validation: nothing to bound
            };
            let need: u64 = nb.map_or(0, |x| x.get().unsigned_abs() as u64).max(pb.map_or(0, |x| x.get().unsigned_abs() as u64));
            let key = format!("{}|STANDARD|limit-break|{}", T::NAME, name);
            match guarded(|| (fmt.bufsize)(&o)) {
                Err(p) => rep.violation(key, format!("C09 buffer_size_const with exponent break {} (options accepted by build()) panicked: {}", name, p)),
                Ok(b) if (b as u64) < need => rep.violation(key, format!("C09 buffer_size_const = {} with exponent break {}: the writer must produce up to {} zeros before leaving positional notation", b, name, need)),
                Ok(_) => {}
            }
        }
        c.done();
    }
}

fn run_floats<T: Flt>(rep: &Report, cli: &Cli) {
    let thorough = cli.tier == "thorough";
    let mut fmts: Vec<(FloatFmt<T>, u32)> = vec![(standard::<T>(), if thorough { 2 } else { 1 })];
    for f in writer_formats::<T>() {
        fmts.push((f, if f.radix == 10 { 1 } else { 0 }));
    }
    for f in radix_formats::<T>() {
        if f.radix != 10 {
            fmts.push((f, 0));
        }
    }
    for f in mixed_formats::<T>() {
        if thorough || f.exp_radix == 10 {
            fmts.push((f, 0));
        }
    }
    limit_cases::<T>(rep);
    let vals = float_values::<T>(if thorough { 2 } else { 1 });
    for (fmt, level) in fmts {
        let opts = wopts(level, fmt.exp_char());
        let idx: Vec<usize> = (0..opts.len()).collect();
        par_items(&idx, cli.threads, |tid, &i| {
            let wo = &opts[i];
            let o = match wo.build() {
                Some(o) => o,
                None => return,
            };
            let mut c = Ck { rep, fam: Fam::new(rep, &format!("C09:{}:{}", T::NAME, if fmt.radix == 10 { fmt.name } else { "radix" })), g: Guarded::new(8192), slot: tid };
            let bound = (fmt.bufsize)(&o);
            let (okey, oshow) = (wo.key(), wo.show());
            let mut longest = 0usize;
            let mut longest_bits = vals[0];
            for &bits in &vals {
                c.fam.states += 1;
                c.fam.cases += 1;
                if let Some(n) = c.float_case(&fmt, &okey, &o, &oshow, bits, bound, bound) {
                    if n + 8 >= bound {
                        c.fam.nontrivial += 1; // output within 8 bytes of the bound
                    }
                    if n > longest {
                        longest = n;
                        longest_bits = bits;
                    }
                }
            }
            // shorter and slightly longer buffers on the value with the longest output
            for len in [0usize, 1, 2, longest.saturating_sub(1), longest, bound / 2, bound - 1, bound + 1] {
                if len < 8192 {
                    c.fam.states += 1;
                    c.fam.cases += 1;
                    c.float_case(&fmt, &okey, &o, &oshow, longest_bits, len, bound);
                }
            }
            if c.fam.want_sample() {
                rep.sample(format!("{} [{}] {} bound {} longest output {} bytes for {:#x}", c.fam.name, fmt.name, oshow, bound, longest, longest_bits));
            }
            c.done();
        });
    }
    // default options through `write`: FORMATTED_SIZE_DECIMAL
    let mut c = Ck { rep, fam: Fam::new(rep, &format!("C09:{}:default", T::NAME)), g: Guarded::new(8192), slot: 0 };
    let size = <T as FormattedSize>::FORMATTED_SIZE_DECIMAL;
    for &bits in &vals {
        for len in [size, size + 1, size - 1, 1, 0] {
            c.fam.states += 1;
            c.fam.cases += 1;
            c.fam.calls += 1;
            let v = T::from_bits64(bits);
            let cap = c.g.capacity();
            c.g.all().fill(CANARY);
            let buf = c.g.tail(len);
            let r = guarded(|| lexical_core::write(v, buf).len());
            let all = c.g.all();
            let key = format!("{}|default|-|{}|{:#x}", T::NAME, len, bits);
            if all[..cap - len].iter().any(|&b| b != CANARY) {
                rep.violation(key, format!("C09 write({:#x}) into a {}-byte buffer modified bytes outside", bits, len));
            } else if len >= size && !matches!(r, Ok(n) if n <= size) {
                rep.violation(key, format!("C09 write({:#x} {}) with FORMATTED_SIZE_DECIMAL={} bytes: {:?}", bits, T::NAME, size, r));
            }
        }
    }
    c.done();
}

fn run_ints<T: Int>(rep: &Report, _cli: &Cli) {
    let mut c = Ck { rep, fam: Fam::new(rep, &format!("C09:{}:int", T::NAME)), g: Guarded::new(4096), slot: 0 };
    for radix in supported_radices() {
        let size = if radix == 10 { T::FORMATTED_SIZE_DECIMAL } else { T::FORMATTED_SIZE };
        let bound = buffer_size_radix::<T>(radix);
        let mut vals: Vec<IVal> = vec![IVal { neg: false, mag: 0 }, IVal { neg: false, mag: T::TY.max_mag(false) }];
        if T::TY.signed {
            vals.push(IVal { neg: true, mag: T::TY.max_mag(true) });
            vals.push(IVal { neg: true, mag: 1 });
        }
        for iv in vals {
            let v = T::from_ival(iv).unwrap();
            let need = vkit::intref::numeral(iv, radix).len();
            for len in [0usize, 1, need.saturating_sub(1), need, size.min(bound) - 1, size, bound, bound + 1] {
                c.fam.states += 1;
                c.fam.cases += 1;
                c.fam.calls += 1;
                c.fam.nontrivial += 1;
                let cap = c.g.capacity();
                c.g.all().fill(CANARY);
                let buf = c.g.tail(len);
                let r = guarded(|| write_radix(v, radix, buf).len());
                let all = c.g.all();
                let key = format!("{}|int|r{}|{}|{}", T::NAME, radix, len, iv.show());
                if all[..cap - len].iter().any(|&b| b != CANARY) {
                    rep.violation(key, format!("C09 write {} {} radix {} into {} bytes modified bytes outside the buffer", T::NAME, iv.show(), radix, len));
                } else if len >= size.max(bound) && !matches!(r, Ok(n) if n <= bound.max(size)) {
                    rep.violation(key, format!("C09 write {} {} radix {} with {} bytes (FORMATTED_SIZE {}, buffer_size {}): {:?}", T::NAME, iv.show(), radix, len, size, bound, r));
                } else if let Ok(n) = r {
                    if n > len {
                        rep.violation(key, format!("C09 write {} {} radix {}: returned {} > buffer {}", T::NAME, iv.show(), radix, n, len));
                    }
                }
            }
        }
    }
    c.done();
}

fn main() {
    let cli = parse_cli();
    silence_panics();
    crash::install();
    let mut rep = Report::new("C09", config_name(), &cli.tier);
    rep.max_per_group = 40;
    rep.max_violations = 4000;
    if let Some(key) = &cli.replay {
        // T|fmt|okey|len|bits
        let p: Vec<&str> = key.split('|').collect();
        fn go<T: Flt>(rep: &Report, p: &[&str]) {
            let mut fmts = vec![standard::<T>()];
            fmts.extend(writer_formats::<T>());
            fmts.extend(radix_formats::<T>());
            fmts.extend(mixed_formats::<T>());
            for fmt in fmts {
                if fmt.name == p[1] && p[2] != "-" {
                    let wo = WOpt::from_key(p[2]);
                    if let Some(o) = wo.build() {
                        let bound = (fmt.bufsize)(&o);
                        let mut c = Ck { rep, fam: Fam::new(rep, "replay"), g: Guarded::new(8192), slot: 0 };
                        let bits = u64::from_str_radix(p[4].trim_start_matches("0x"), 16).unwrap();
                        c.float_case(&fmt, p[2], &o, &wo.show(), bits, p[3].parse().unwrap(), bound);
                        c.done();
                    }
                    return;
                }
            }
        }
        if p.len() > 2 && p[2] == "limit-break" {
            // the LIMIT family is three cases: re-run it
            if p[0] == "f64" {
                limit_cases::<f64>(&rep);
            } else {
                limit_cases::<f32>(&rep);
            }
        } else if p[0] == "f64" {
            go::<f64>(&rep, &p);
        } else if p[0] == "f32" {
            go::<f32>(&rep, &p);
        } else if p.len() > 1 && p[1] == "int" {
            // integer cases are few: re-run the whole family of the type
            fn goi<T: Int>(rep: &Report, cli: &Cli, name: &str) {
                if T::NAME == name {
                    run_ints::<T>(rep, cli);
                }
            }
            harness::for_each_int_type!(goi, &rep, &cli, p[0]);
        }
        finish(&rep, &cli);
    }
    run_floats::<f64>(&rep, &cli);
    run_floats::<f32>(&rep, &cli);
    harness::for_each_int_type!(run_ints, &rep, &cli);
    finish(&rep, &cli);
}
