//! C10 — parsers are total (no panic, no fault, indices within the input) and
//! C11 — partial and complete parsers agree. One enumeration, two predicates (--prop C11).
//! Inputs are placed flush against a trailing guard page (and, second pass, a leading one).

use harness::cat::*;
use harness::common::*;
use harness::crash;
use harness::floatfam::show_trunc;
use harness::intglue::Int;
use lexical_core::{ParseFloatOptions, ParseIntegerOptions};
use vkit::gen;
use vkit::gram::FmtDesc;
use vkit::guard::Guarded;
use vkit::out::*;
use vkit::par::par_items;

#[derive(Clone, Debug, PartialEq)]
enum R {
    Ok(u128, bool, usize), // bits/value, is_nan, count
    Err(String, Option<usize>),
    Panic(String),
}

fn rf<T: Flt>(r: Result<PRes<T>, String>, len: usize) -> R {
    match r {
        Ok(Ok(v)) => R::Ok(v.to_bits64() as u128, T::FMT.is_nan(v.to_bits64()), len),
        Ok(Err(e)) => R::Err(format!("{:?}", e), e.index().copied()),
        Err(p) => R::Panic(p),
    }
}
fn rfp<T: Flt>(r: Result<PRes<(T, usize)>, String>) -> R {
    match r {
        Ok(Ok((v, n))) => R::Ok(v.to_bits64() as u128, T::FMT.is_nan(v.to_bits64()), n),
        Ok(Err(e)) => R::Err(format!("{:?}", e), e.index().copied()),
        Err(p) => R::Panic(p),
    }
}
fn ri<T: Int>(r: Result<PRes<T>, String>, len: usize) -> R {
    match r {
        Ok(Ok(v)) => {
            let iv = v.to_ival();
            R::Ok(if iv.neg { iv.mag.wrapping_neg() } else { iv.mag }, false, len)
        }
        Ok(Err(e)) => R::Err(format!("{:?}", e), e.index().copied()),
        Err(p) => R::Panic(p),
    }
}
fn rip<T: Int>(r: Result<PRes<(T, usize)>, String>) -> R {
    match r {
        Ok(Ok((v, n))) => {
            let iv = v.to_ival();
            R::Ok(if iv.neg { iv.mag.wrapping_neg() } else { iv.mag }, false, n)
        }
        Ok(Err(e)) => R::Err(format!("{:?}", e), e.index().copied()),
        Err(p) => R::Panic(p),
    }
}

fn same_value(a: &R, b: &R) -> bool {
    match (a, b) {
        (R::Ok(x, nx, _), R::Ok(y, ny, _)) => (*nx && *ny) || (x == y && nx == ny),
        _ => false,
    }
}

struct Ck<'a> {
    c11: bool,
    rep: &'a Report,
    fam: Fam<'a>,
    g: Guarded,
    slot: usize,
    fopts: Vec<(&'static str, ParseFloatOptions)>,
    iopts: ParseIntegerOptions,
    iopts_multi: ParseIntegerOptions,
}

type Entry<'e> = (&'e str, Box<dyn Fn(&[u8]) -> R + 'e>, Box<dyn Fn(&[u8]) -> R + 'e>);

impl<'a> Ck<'a> {
    fn new(c11: bool, rep: &'a Report, fam: &str, slot: usize, radix: u32) -> Self {
        let ec = if radix >= 15 { b'^' } else { b'e' };
        let mut fopts = vec![("std", ParseFloatOptions::builder().exponent(ec).build_unchecked())];
        if radix == 10 {
            fopts.push(("comma_caret", ParseFloatOptions::builder().decimal_point(b',').exponent(b'^').build_unchecked()));
        }
        // lossy: the algorithms that must never reach the slow path
        fopts.push(("lossy", ParseFloatOptions::builder().exponent(ec).lossy(true).build_unchecked()));
        Ck { c11, rep, fam: Fam::new(rep, fam), g: Guarded::new(8192), slot, fopts, iopts: ParseIntegerOptions::new(), iopts_multi: ParseIntegerOptions::builder().no_multi_digit(false).build().expect("integer options") }
    }

    /// Evaluate both predicates for one (format, type) pair on `s`.
    fn judge(&mut self, fmt_name: &str, ty: &str, oname: &str, s: &[u8], complete: &dyn Fn(&[u8]) -> R, partial: &dyn Fn(&[u8]) -> R) {
        let key = || format!("{}|{}|{}|{}", fmt_name, ty, oname, hex(s));
        let len = s.len();
        self.fam.calls += 2;
        // end-aligned and start-aligned placement
        let mut results: Vec<(R, R)> = Vec::new();
        for tail in [true, false] {
            if !tail && self.fam.cases % 8 != 0 {
                continue; // the leading-guard pass runs on every 8th case (under-runs are rare paths)
            }
            crash::set_current(self.slot, format!("{}|{}|{}", fmt_name, ty, oname).as_bytes(), s);
            let buf: &[u8] = if tail { self.g.place_tail(s) } else { self.g.place_head(s) };
            let c = complete(buf);
            let p = partial(buf);
            results.push((c, p));
        }
        if results.len() == 2 && results[0] != results[1] {
            self.rep.violation(key(), format!("C10 [{} {} {}] {:?}: result depends on where the input is placed in memory: {:?} vs {:?}", fmt_name, ty, oname, show_trunc(s), results[0], results[1]));
            return;
        }
        let (c, p) = results.swap_remove(0);
        if !self.c11 {
            // totality
            for (entry, r) in [("parse", &c), ("parse_partial", &p)] {
                match r {
                    R::Panic(m) => {
                        self.rep.violation(key(), format!("C10 [{} {} {}] {}({:?}) panicked: {}", fmt_name, ty, oname, entry, show_trunc(s), m));
                        return;
                    }
                    R::Ok(_, _, n) if *n > len => {
                        self.rep.violation(key(), format!("C10 [{} {} {}] {}({:?}) consumed {} > len {}", fmt_name, ty, oname, entry, show_trunc(s), n, len));
                        return;
                    }
                    R::Err(e, Some(i)) if *i > len => {
                        self.rep.violation(key(), format!("C10 [{} {} {}] {}({:?}) = Err({}) index beyond len {}", fmt_name, ty, oname, entry, show_trunc(s), e, len));
                        return;
                    }
                    _ => {}
                }
            }
            if matches!(c, R::Ok(..)) {
                self.fam.nontrivial += 1;
            }
            return;
        }
        // C11 (A): complete Ok(v)  <=>  partial Ok((v, len))
        let c_ok = matches!(c, R::Ok(..));
        let p_full = matches!(p, R::Ok(_, _, n) if n == len);
        if c_ok != p_full || (c_ok && !same_value(&c, &p)) {
            self.rep.violation(key(), format!("C11 [{} {} {}] {:?}: parse = {:?} but parse_partial = {:?}", fmt_name, ty, oname, show_trunc(s), c, p));
            return;
        }
        if c_ok {
            self.fam.nontrivial += 1;
        }
        // C11 (B): partial Ok((v, n)), 0 < n < len  =>  complete(s[..n]) = Ok(v)
        if let R::Ok(_, _, n) = p {
            if n > 0 && n < len {
                self.fam.calls += 1;
                self.fam.bump("prefix_reparsed");
                crash::set_current(self.slot, format!("{}|{}|{}", fmt_name, ty, oname).as_bytes(), &s[..n]);
                let c2 = complete(self.g.place_tail(&s[..n]));
                if !same_value(&c2, &p) {
                    self.rep.violation(key(), format!("C11 [{} {} {}] parse_partial({:?}) = {:?} but parse({:?}) = {:?}", fmt_name, ty, oname, show_trunc(s), p, show_trunc(&s[..n]), c2));
                }
            }
        }
    }

    fn check_fmt(&mut self, f: &CatFmt, s: &[u8]) {
        // once per format: options whose decimal point / exponent is the format's separator byte
        if f.desc.sep != 0 && !self.fopts.iter().any(|(n, _)| *n == "point_is_sep") {
            self.fopts.push(("point_is_sep", ParseFloatOptions::builder().decimal_point(f.desc.sep).exponent(if f.desc.mantissa_radix >= 15 { b'^' } else { b'e' }).build_unchecked()));
            self.fopts.push(("exp_is_sep", ParseFloatOptions::builder().exponent(f.desc.sep).build_unchecked()));
        }
        self.fam.states += 1;
        self.fam.cases += 1;
        if self.fam.want_sample() {
            self.rep.sample(format!("{} [{}] {}", self.fam.name, f.desc.name, show_trunc(s)));
        }
        let fopts = self.fopts.clone();
        for (oname, o) in &fopts {
            let (f64p, f64pp, f32p, f32pp) = (f.f64.parse, f.f64.partial, f.f32.parse, f.f32.partial);
            self.judge(f.desc.name, "f64", oname, s, &|b| rf::<f64>(guarded(|| f64p(b, o)), b.len()), &|b| rfp::<f64>(guarded(|| f64pp(b, o))));
            self.judge(f.desc.name, "f32", oname, s, &|b| rf::<f32>(guarded(|| f32p(b, o)), b.len()), &|b| rfp::<f32>(guarded(|| f32pp(b, o))));
        }
        let io = self.iopts.clone();
        let iom = self.iopts_multi.clone();
        macro_rules! int_ty {
            ($field:ident, $t:ty, $name:expr) => {{
                let (p, pp) = (f.$field.parse, f.$field.partial);
                self.judge(f.desc.name, $name, "std", s, &|b| ri::<$t>(guarded(|| p(b, &io)), b.len()), &|b| rip::<$t>(guarded(|| pp(b, &io))));
                // multi-digit (4/8 bytes at a time) integer paths
                self.judge(f.desc.name, $name, "multi", s, &|b| ri::<$t>(guarded(|| p(b, &iom)), b.len()), &|b| rip::<$t>(guarded(|| pp(b, &iom))));
            }};
        }
        int_ty!(u8, u8, "u8");
        int_ty!(i32, i32, "i32");
        int_ty!(i64, i64, "i64");
        int_ty!(u128, u128, "u128");
    }

    /// default-format API for all 14 types
    fn check_default(&mut self, s: &[u8]) {
        self.fam.states += 1;
        self.fam.cases += 1;
        macro_rules! fl {
            ($t:ty, $name:expr) => {
                self.judge("DEFAULT", $name, "std", s, &|b| rf::<$t>(guarded(|| lexical_core::parse::<$t>(b)), b.len()), &|b| rfp::<$t>(guarded(|| lexical_core::parse_partial::<$t>(b))));
            };
        }
        let iom = self.iopts_multi.clone();
        macro_rules! it {
            ($t:ty, $name:expr) => {
                self.judge("DEFAULT", $name, "std", s, &|b| ri::<$t>(guarded(|| lexical_core::parse::<$t>(b)), b.len()), &|b| rip::<$t>(guarded(|| lexical_core::parse_partial::<$t>(b))));
                self.judge("DEFAULT", $name, "multi", s, &|b| ri::<$t>(guarded(|| lexical_core::parse_with_options::<$t, { lexical_core::format::STANDARD }>(b, &iom)), b.len()), &|b| rip::<$t>(guarded(|| lexical_core::parse_partial_with_options::<$t, { lexical_core::format::STANDARD }>(b, &iom))));
            };
        }
        fl!(f64, "f64");
        fl!(f32, "f32");
        it!(u8, "u8");
        it!(u16, "u16");
        it!(u32, "u32");
        it!(u64, "u64");
        it!(u128, "u128");
        it!(usize, "usize");
        it!(i8, "i8");
        it!(i16, "i16");
        it!(i32, "i32");
        it!(i64, "i64");
        it!(i128, "i128");
        it!(isize, "isize");
    }

    fn done(self) {
        self.fam.finish();
    }
}

/// token alphabet for a format
fn sigma(d: &FmtDesc) -> Vec<Vec<u8>> {
    let r = d.mantissa_radix;
    let ec: u8 = if r >= 15 { b'^' } else { b'e' };
    let mut a: Vec<Vec<u8>> = vec![b"+".to_vec(), b"-".to_vec(), b"0".to_vec(), b"1".to_vec(), b".".to_vec(), vec![ec]];
    if ec.is_ascii_alphabetic() {
        a.push(vec![ec.to_ascii_uppercase()]);
    }
    a.push(vec![vkit::big::digit_char(r - 1)]);
    a.push(vec![if d.sep != 0 { d.sep } else { b'_' }]);
    if d.prefix != 0 {
        a.push(vec![d.prefix]);
        a.push(vec![d.prefix.to_ascii_uppercase()]);
    }
    if d.suffix != 0 {
        a.push(vec![d.suffix]);
    }
    if r <= 23 {
        a.push(b"n".to_vec());
    }
    if r <= 18 {
        a.push(b"i".to_vec());
    }
    a.push(b",".to_vec());
    a.sort();
    a.dedup();
    a
}

fn long_inputs(d: &FmtDesc) -> Vec<Vec<u8>> {
    let mut v = Vec::new();
    let sep = if d.sep != 0 { d.sep } else { b'_' };
    let one = b'1';
    for n in [3usize, 4, 7, 8, 9, 15, 16, 17, 19, 20, 21, 39, 40, 41] {
        let body = vec![one; n];
        v.push(body.clone());
        // one separator at every position
        for pos in 0..=n {
            let mut s = body.clone();
            s.insert(pos, sep);
            v.push(s.clone());
            let mut t = s.clone();
            t.insert(pos, sep);
            v.push(t);
        }
        // fraction and exponent shapes
        let mut s = body.clone();
        s.insert(n / 2, b'.');
        v.push(s.clone());
        let mut t = s.clone();
        t.extend_from_slice(if d.mantissa_radix >= 15 { b"^12" } else { b"e12" });
        v.push(t);
        let mut u = b"0.".to_vec();
        u.extend_from_slice(&body);
        v.push(u);
    }
    // exponent digits followed by a separator and then a byte that is a digit of the mantissa
    // radix but not necessarily of the exponent radix (or not a digit at all)
    {
        let ec: &[u8] = if d.mantissa_radix >= 15 { b"^" } else { b"e" };
        let m = vkit::big::digit_char(d.mantissa_radix - 1);
        for exp in [&b"1"[..], b"12", b"-1", b"+12"] {
            for seps in [1usize, 2] {
                for tail in [&[m][..], b"1", b"x", b""] {
                    let mut s = b"1".to_vec();
                    s.extend_from_slice(ec);
                    s.extend_from_slice(exp);
                    s.extend(std::iter::repeat(sep).take(seps));
                    s.extend_from_slice(tail);
                    v.push(s.clone());
                    let mut t = b"1.5".to_vec();
                    t.extend_from_slice(&s[1..]);
                    v.push(t);
                }
            }
        }
    }
    // exact halfway expansions (and one unit above) of a few floats: inputs that the moderate paths
    // cannot decide and that have more digits than fit a 64-bit significand
    if d.mantissa_radix == 10 && d.exponent_base == 10 {
        for (fm, bits) in [(vkit::float::F64, 0x3ff0000000000000u64), (vkit::float::F64, 0x4340000000000000), (vkit::float::F64, 0x4340000000000001), (vkit::float::F32, 0x3f800000), (vkit::float::F32, 0x4b800000), (vkit::float::F32, 0x4b800001)] {
            if let Some((ds, q)) = gen::midpoint_expansion(fm, bits, 10) {
                if ds.len() > 60 {
                    continue;
                }
                for bump in [false, true] {
                    let mut digits = ds.clone();
                    if bump {
                        digits.extend_from_slice(b"0000000001");
                    } else {
                        digits.extend_from_slice(b"0000000000");
                    }
                    let k = (-(q - 10)).max(0) as usize; // fraction digits
                    let mut s: Vec<u8> = Vec::new();
                    if digits.len() > k {
                        s.extend_from_slice(&digits[..digits.len() - k]);
                        s.push(b'.');
                        s.extend_from_slice(&digits[digits.len() - k..]);
                    } else {
                        s.extend_from_slice(b"0.");
                        s.extend(std::iter::repeat(b'0').take(k - digits.len()));
                        s.extend_from_slice(&digits);
                    }
                    v.push(s);
                }
            }
        }
    }
    // very long digit strings (big-integer paths) and their separator variants
    for n in [400usize, 800, 1200] {
        let mut s = vec![b'1'; n];
        v.push(s.clone());
        s.insert(n / 2, sep);
        v.push(s.clone());
        s.insert(1, b'.');
        v.push(s);
    }
    v
}

fn radix_str(mut n: u64, radix: u32) -> Vec<u8> {
    let mut v = Vec::new();
    loop {
        v.push(vkit::big::digit_char((n % radix as u64) as u32));
        n /= radix as u64;
        if n == 0 {
            break;
        }
    }
    v.reverse();
    v
}

/// MAG: a few mantissa shapes x every exponent in a window wider than the float range, so every
/// table index, bias window and underflow/overflow cut-off of the float algorithms is visited.
fn magnitude_inputs(d: &FmtDesc, thorough: bool) -> Vec<Vec<u8>> {
    let r = d.mantissa_radix;
    let ec: &[u8] = if r >= 15 { b"^" } else { b"e" };
    let m = vkit::big::digit_char(r - 1);
    let mants: Vec<Vec<u8>> = vec![
        b"1".to_vec(),
        vec![m],
        b"1.0".to_vec(),
        vec![b'1', m, b'0', b'.', b'0', m, b'1'],
        vec![m; 19],
        vec![m; 25],
        [b"0.".to_vec(), vec![b'0'; 30], vec![b'1']].concat(),
        [vec![b'1'], vec![b'0'; 30], b".0".to_vec()].concat(),
        [vec![b'1'; 70], b".".to_vec(), vec![m; 70]].concat(),
    ];
    // exponent window in units of the exponent base: beyond 2^+-1200 for every base
    let per = (d.exponent_base as f64).log2();
    let emax = (1250.0 / per) as i64 + 40;
    let step = if thorough { 1 } else { 1 };
    let mut v = Vec::new();
    for mant in &mants {
        let mut e = -emax;
        while e <= emax {
            let mut s = mant.clone();
            s.extend_from_slice(ec);
            if e < 0 {
                s.push(b'-');
            }
            s.extend_from_slice(&radix_str(e.unsigned_abs(), d.exponent_radix));
            v.push(s);
            e += step;
        }
    }
    // exponents near the i32/i64 limits of the exponent accumulator
    for e in [i32::MAX as u64 - 1, i32::MAX as u64, i32::MAX as u64 + 1, u32::MAX as u64, i64::MAX as u64, u64::MAX] {
        for sign in [&b""[..], b"-", b"+"] {
            for mant in [&mants[0], &mants[4], &mants[6]] {
                let mut s = mant.clone();
                s.extend_from_slice(ec);
                s.extend_from_slice(sign);
                s.extend_from_slice(&radix_str(e, d.exponent_radix));
                v.push(s);
            }
        }
    }
    v
}

/// SPEC: the special words with 0, 1 or 2 separators at every position, signs, trailing junk.
fn special_inputs(d: &FmtDesc) -> Vec<Vec<u8>> {
    let sep = if d.sep != 0 { d.sep } else { b'_' };
    let mut v: Vec<Vec<u8>> = Vec::new();
    for w in [&b"nan"[..], b"NaN", b"inf", b"Inf", b"infinity", b"INFINITY"] {
        let mut shapes: Vec<Vec<u8>> = vec![w.to_vec()];
        for i in 0..=w.len() {
            let mut a = w.to_vec();
            a.insert(i, sep);
            shapes.push(a.clone());
            for j in i..=w.len() {
                let mut b = a.clone();
                b.insert(j + 1, sep);
                shapes.push(b);
            }
        }
        for sh in shapes {
            for sign in [&b""[..], b"+", b"-"] {
                for tail in [&b""[..], b"x"] {
                    let mut s = sign.to_vec();
                    s.extend_from_slice(&sh);
                    s.extend_from_slice(tail);
                    v.push(s);
                }
            }
        }
    }
    v.sort();
    v.dedup();
    v
}

fn run(rep: &Report, cli: &Cli, c11: bool) {
    let thorough = cli.tier == "thorough";
    let prop = if c11 { "C11" } else { "C10" };
    // 1. raw bytes through the default API
    let blen = if thorough { 3 } else { 2 };
    let firsts: Vec<u16> = (0..=256u16).collect(); // 256 = the empty string
    par_items(&firsts, cli.threads, |tid, &b0| {
        let mut c = Ck::new(c11, rep, &format!("{prop}:BYTES"), tid, 10);
        if b0 == 256 {
            c.check_default(b"");
        } else {
            let mut s = vec![b0 as u8];
            c.check_default(&s);
            for b1 in 0..=255u8 {
                s.push(b1);
                c.check_default(&s);
                if blen >= 3 {
                    for b2 in 0..=255u8 {
                        s.push(b2);
                        c.check_default(&s);
                        s.pop();
                    }
                } else if matches!(b0 as u8, b'+' | b'-' | b'0'..=b'9' | b'.' | b'e' | b'E' | b'n' | b'N' | b'i' | b'I') {
                    // quick tier: third byte only after a byte that can start a number
                    for b2 in 0..=255u8 {
                        s.push(b2);
                        c.check_default(&s);
                        s.pop();
                    }
                }
                s.pop();
            }
        }
        c.done();
    });
    // 2. token strings through every catalogued format
    let groups: Vec<&str> = if thorough { vec![] } else { vec!["STD", "FLAG1", "DIGITS", "SIGN", "SPECIAL", "LZERO", "CASE", "SEP15", "SEPX", "RADIX", "PREBUILT"] };
    let cat = catalogue(&groups);
    let depth = if thorough { 5 } else { 4 };
    let idx: Vec<usize> = (0..cat.len()).collect();
    par_items(&idx, cli.threads, |tid, &i| {
        let f = &cat[i];
        let mut c = Ck::new(c11, rep, &format!("{prop}:{}", f.group), tid, f.desc.mantissa_radix);
        let alpha = sigma(&f.desc);
        let aref: Vec<&[u8]> = alpha.iter().map(|v| &v[..]).collect();
        // PREBUILT formats are many: one level shallower
        let d = if f.group == "PREBUILT" { depth - 1 } else { depth };
        gen::for_each_string(&aref, d, &mut |s: &[u8]| c.check_fmt(f, s));
        for s in long_inputs(&f.desc) {
            c.check_fmt(f, &s);
        }
        c.done();
        {
            let mut c = Ck::new(c11, rep, &format!("{prop}:SPEC"), tid, f.desc.mantissa_radix);
            for s in special_inputs(&f.desc) {
                c.check_fmt(f, &s);
            }
            c.done();
        }
        if matches!(f.group, "STD" | "RADIX") {
            let mut c = Ck::new(c11, rep, &format!("{prop}:MAG"), tid, f.desc.mantissa_radix);
            for s in magnitude_inputs(&f.desc, thorough) {
                c.check_fmt(f, &s);
            }
            c.done();
        }
    });
    rep.note(format!("formats={} depth={} bytes_len<={}", cat.len(), depth, blen));
}

fn replay(rep: &Report, key: &str, c11: bool) {
    let p: Vec<&str> = key.split('|').collect();
    let s = unhex(p[3]);
    let mut c = Ck::new(c11, rep, "replay", 0, 10);
    if p[0] == "DEFAULT" {
        c.check_default(&s);
    } else {
        for f in catalogue(&[]) {
            if f.desc.name == p[0] {
                let mut c = Ck::new(c11, rep, "replay", 0, f.desc.mantissa_radix);
                c.check_fmt(&f, &s);
                c.done();
            }
        }
    }
    c.done();
}

fn main() {
    let cli = parse_cli();
    silence_panics();
    crash::install();
    let c11 = cli.extra.iter().any(|a| a == "--c11");
    let mut rep = Report::new(if c11 { "C11" } else { "C10" }, config_name(), &cli.tier);
    rep.max_per_group = 2000;
    rep.max_violations = 20000;
    if let Some(key) = &cli.replay {
        replay(&rep, key, c11);
        finish(&rep, &cli);
    }
    run(&rep, &cli, c11);
    finish(&rep, &cli);
}
