//! C12 — number-format syntax flags accept exactly the documented grammar (separator-free
//! inputs). Every string of <= L tokens over the per-format alphabet, every catalogued format
//! without separator flags, complete parsers of f64/f32/u8/i32/i64/u128, judged by R-gram.

use harness::cat::*;
use harness::common::*;
use harness::floatfam::show_trunc;
use harness::intglue::Int;
use lexical_core::{ParseFloatOptions, ParseIntegerOptions};
use vkit::gen;
use vkit::gram::{float_complete, integer_complete, FmtDesc, Gram, IntGram, Punct, SpecialKind};
use vkit::intref::IVal;
use vkit::out::*;
use vkit::par::par_items;
use vkit::simple::{Judge, Simple};

fn exp_char(d: &FmtDesc) -> u8 {
    if d.mantissa_radix >= 15 || d.exponent_radix >= 15 {
        b'^'
    } else {
        b'e'
    }
}

fn sigma(d: &FmtDesc) -> Vec<Vec<u8>> {
    let ec = exp_char(d);
    let mut a: Vec<Vec<u8>> = vec![b"+".to_vec(), b"-".to_vec(), b"0".to_vec(), b"1".to_vec(), b".".to_vec(), vec![ec], b",".to_vec()];
    a.push(vec![vkit::big::digit_char(d.mantissa_radix - 1)]);
    if ec.is_ascii_alphabetic() {
        a.push(vec![ec.to_ascii_uppercase()]);
    }
    if d.prefix != 0 {
        a.push(vec![d.prefix]);
        a.push(vec![d.prefix.to_ascii_uppercase()]);
    }
    if d.suffix != 0 {
        a.push(vec![d.suffix]);
        a.push(vec![d.suffix.to_ascii_uppercase()]);
    }
    for t in ["nan", "NaN", "inf", "Inf", "infinity", "n", "i"] {
        a.push(t.as_bytes().to_vec());
    }
    a.sort();
    a.dedup();
    a
}

struct Ck<'a> {
    rep: &'a Report,
    fam: Fam<'a>,
    j: Judge,
    p: Punct,
    fo: ParseFloatOptions,
    io: ParseIntegerOptions,
    /// the catalogued format that differs only in flags documented as float-only
    int_twin: Option<CatFmt>,
}

/// `d` with every flag the documentation marks "Parse Float" only reset to the STANDARD value
fn int_projection(d: &FmtDesc) -> FmtDesc {
    let mut p = d.clone();
    let st = FmtDesc::standard();
    p.name = "";
    p.required_fraction_digits = st.required_fraction_digits;
    p.required_exponent_digits = st.required_exponent_digits;
    p.no_exponent_notation = st.no_exponent_notation;
    p.no_positive_exponent_sign = st.no_positive_exponent_sign;
    p.required_exponent_sign = st.required_exponent_sign;
    p.no_exponent_without_fraction = st.no_exponent_without_fraction;
    p.required_exponent_notation = st.required_exponent_notation;
    p.case_sensitive_exponent = st.case_sensitive_exponent;
    p.no_float_leading_zeros = st.no_float_leading_zeros;
    p.no_special = st.no_special;
    p.case_sensitive_special = st.case_sensitive_special;
    p
}

fn find_int_twin(all: &[CatFmt], f: &CatFmt) -> Option<CatFmt> {
    let want = int_projection(&f.desc);
    all.iter()
        .find(|c| c.lexical_valid && c.desc.name != f.desc.name && {
            let mut d = c.desc.clone();
            d.name = "";
            d == want
        })
        .cloned()
}

impl<'a> Ck<'a> {
    fn new(rep: &'a Report, f: &CatFmt, all: &[CatFmt]) -> Self {
        let ec = exp_char(&f.desc);
        let mut p = Punct::standard();
        p.exponent = ec;
        Ck {
            rep,
            fam: Fam::new(rep, &format!("C12:{}", f.group)),
            j: Judge::new(f.desc.mantissa_radix, f.desc.exponent_base),
            p,
            fo: ParseFloatOptions::builder().exponent(ec).build_unchecked(),
            io: ParseIntegerOptions::new(),
            int_twin: find_int_twin(all, f),
        }
    }

    fn float<T: Flt>(&mut self, f: &CatFmt, fns: FloatFns<T>, s: &[u8], g: &Gram) {
        let key = || format!("{}|{}|{}", f.desc.name, T::NAME, hex(s));
        self.fam.calls += 1;
        let fo = self.fo.clone();
        let r = guarded(|| (fns.parse)(s, &fo));
        let r = match r {
            Ok(r) => r,
            Err(p) => {
                self.rep.violation(key(), format!("C12 [{}] parse::<{}>({:?}) panicked: {}", f.desc.name, T::NAME, show_trunc(s), p));
                return;
            }
        };
        match (g, r) {
            (Gram::Unspecified, _) => {}
            (Gram::Reject, Err(_)) => {}
            (Gram::Reject, Ok(v)) => {
                self.rep.violation(key(), format!("C12 [{}] parse::<{}>({:?}) = Ok({}) but the documented grammar of the format does not derive it", f.desc.name, T::NAME, show_trunc(s), v.std_display()));
            }
            (Gram::Number(n), Ok(v)) => {
                let mut digits = n.int_digits.clone();
                digits.extend_from_slice(&n.frac_digits);
                let x = Simple { neg: n.neg, digits, frac_len: n.frac_digits.len(), exp: n.exp, has_exp: n.has_exp, has_point: n.has_point };
                if !self.j.is_correct(T::FMT, &x, v.to_bits64()) {
                    let e = self.j.expected_bits(T::FMT, &x);
                    self.rep.violation(key(), format!("C12 [{}] parse::<{}>({:?}) = {:#x} ({}) but the digits denote {:#x} ({})", f.desc.name, T::NAME, show_trunc(s), v.to_bits64(), v.std_display(), e, T::from_bits64(e).std_display()));
                }
            }
            (Gram::Number(_), Err(e)) => {
                self.rep.violation(key(), format!("C12 [{}] parse::<{}>({:?}) = Err({:?}) but the documented grammar derives it", f.desc.name, T::NAME, show_trunc(s), e));
            }
            (Gram::Special(k, neg), Ok(v)) => {
                let b = v.to_bits64();
                let ok = match k {
                    SpecialKind::Nan => T::FMT.is_nan(b),
                    SpecialKind::Inf => T::FMT.abs(b) == T::FMT.inf_bits() && T::FMT.is_neg(b) == *neg,
                };
                if !ok {
                    self.rep.violation(key(), format!("C12 [{}] parse::<{}>({:?}) = {} but it is the {:?} string", f.desc.name, T::NAME, show_trunc(s), v.std_display(), k));
                }
            }
            (Gram::Special(k, _), Err(e)) => {
                self.rep.violation(key(), format!("C12 [{}] parse::<{}>({:?}) = Err({:?}) but it is the configured {:?} string", f.desc.name, T::NAME, show_trunc(s), e, k));
            }
        }
    }

    fn int<T: Int>(&mut self, f: &CatFmt, fns: IntFns<T>, twin: Option<(&'static str, IntFns<T>)>, s: &[u8]) {
        let key = || format!("{}|{}|{}", f.desc.name, T::NAME, hex(s));
        let g = integer_complete(&f.desc, s, T::TY.signed);
        self.fam.calls += 1;
        let io = self.io.clone();
        let r = match guarded(|| (fns.parse)(s, &io)) {
            Ok(r) => r,
            Err(p) => {
                self.rep.violation(key(), format!("C12 [{}] parse::<{}>({:?}) panicked: {}", f.desc.name, T::NAME, show_trunc(s), p));
                return;
            }
        };
        // flags documented as float-only must not change what an integer parser returns
        if let Some((tw_name, tf)) = twin {
            self.fam.calls += 1;
            if let Ok(r2) = guarded(|| (tf.parse)(s, &io)) {
                let same = match (&r, &r2) {
                    (Ok(a), Ok(b)) => a.to_ival().norm() == b.to_ival().norm(),
                    (Err(a), Err(b)) => a == b,
                    _ => false,
                };
                if !same {
                    self.rep.violation(
                        format!("{}|{}|inttwin|{}", f.desc.name, T::NAME, hex(s)),
                        format!("C12 [{}] parse::<{}>({:?}) = {:?} but under [{}], which differs only in flags documented as float-only, it is {:?}", f.desc.name, T::NAME, show_trunc(s), r.as_ref().map(|v| v.to_string()), tw_name, r2.as_ref().map(|v| v.to_string())),
                    );
                    return;
                }
            }
        }
        match (g, r) {
            (IntGram::Unspecified, _) => self.fam.bump("unspecified"),
            (IntGram::Reject, Err(_)) => {}
            (IntGram::Reject, Ok(v)) => {
                self.rep.violation(key(), format!("C12 [{}] parse::<{}>({:?}) = Ok({}) but the documented grammar does not derive it", f.desc.name, T::NAME, show_trunc(s), v));
            }
            (IntGram::Number(neg, digits), r) => {
                // exact value, or overflow
                let radix = f.desc.mantissa_radix;
                let mut mag: Option<u128> = Some(0);
                for &c in &digits {
                    let d = vkit::big::digit_value(c).unwrap() as u128;
                    mag = mag.and_then(|m| m.checked_mul(radix as u128)).and_then(|m| m.checked_add(d));
                }
                let fits = mag.map_or(false, |m| m <= T::TY.max_mag(neg && m != 0));
                match (fits, r) {
                    (true, Ok(v)) => {
                        if v.to_ival().norm() != (IVal { neg, mag: mag.unwrap() }).norm() {
                            self.rep.violation(key(), format!("C12 [{}] parse::<{}>({:?}) = Ok({}) but the digits denote {}{}", f.desc.name, T::NAME, show_trunc(s), v, if neg { "-" } else { "" }, mag.unwrap()));
                        }
                    }
                    (false, Err(_)) => {}
                    (true, Err(e)) => {
                        self.rep.violation(key(), format!("C12 [{}] parse::<{}>({:?}) = Err({:?}) but the documented grammar derives it and the value fits", f.desc.name, T::NAME, show_trunc(s), e));
                    }
                    (false, Ok(v)) => {
                        self.rep.violation(key(), format!("C12 [{}] parse::<{}>({:?}) = Ok({}) but the value does not fit the type", f.desc.name, T::NAME, show_trunc(s), v));
                    }
                }
            }
        }
    }

    fn check(&mut self, f: &CatFmt, s: &[u8]) {
        self.fam.states += 1;
        self.fam.cases += 1;
        let g = float_complete(&f.desc, &self.p, s);
        match &g {
            Gram::Number(_) | Gram::Special(..) => self.fam.nontrivial += 1,
            Gram::Unspecified => self.fam.bump("float_unspecified"),
            _ => {}
        }
        if self.fam.want_sample() {
            self.rep.sample(format!("{} [{}] {:?} -> {:?}", self.fam.name, f.desc.name, show_trunc(s), g));
        }
        self.float::<f64>(f, f.f64, s, &g);
        self.float::<f32>(f, f.f32, s, &g);
        let tw = self.int_twin.clone();
        self.int::<u8>(f, f.u8, tw.as_ref().map(|t| (t.desc.name, t.u8)), s);
        self.int::<i32>(f, f.i32, tw.as_ref().map(|t| (t.desc.name, t.i32)), s);
        self.int::<i64>(f, f.i64, tw.as_ref().map(|t| (t.desc.name, t.i64)), s);
        self.int::<u128>(f, f.u128, tw.as_ref().map(|t| (t.desc.name, t.u128)), s);
    }
    fn done(self) {
        self.fam.finish();
    }
}

fn eligible(f: &CatFmt) -> bool {
    // separator-free grammar only: formats with separator flags belong to C13
    !f.desc.has_sep_flags() && f.lexical_valid
}

fn main() {
    let cli = parse_cli();
    silence_panics();
    let rep = Report::new("C12", config_name(), &cli.tier);
    if let Err(e) = vkit::self_check_all() {
        rep.machinery_error(format!("self-check: {e}"));
        finish(&rep, &cli);
    }
    if let Some(key) = &cli.replay {
        let p: Vec<&str> = key.split('|').collect();
        let s = unhex(if p[2] == "inttwin" { p[3] } else { p[2] });
        let all = catalogue(&[]);
        for f in all.iter() {
            if f.desc.name == p[0] {
                let mut c = Ck::new(&rep, f, &all);
                c.check(f, &s);
                c.done();
            }
        }
        finish(&rep, &cli);
    }
    let thorough = cli.tier == "thorough";
    let groups: Vec<&str> = if thorough { vec![] } else { vec!["STD", "FLAG1", "DIGITS", "SIGN", "SPECIAL", "LZERO", "CASE", "RADIX", "TWIN"] };
    let cat: Vec<CatFmt> = catalogue(&groups).into_iter().filter(eligible).collect();
    let depth = if thorough { 6 } else { 5 };
    let idx: Vec<usize> = (0..cat.len()).collect();
    par_items(&idx, cli.threads, |_, &i| {
        let f = &cat[i];
        let mut c = Ck::new(&rep, f, &cat);
        let alpha = sigma(&f.desc);
        let aref: Vec<&[u8]> = alpha.iter().map(|v| &v[..]).collect();
        gen::for_each_string(&aref, depth, &mut |s: &[u8]| c.check(f, s));
        // every byte value before, between and after digits, after the point and in the exponent
        let ec = exp_char(&f.desc);
        for b in 0..=255u8 {
            for shape in [vec![b], vec![b'1', b], vec![b, b'1'], vec![b'1', b, b'1'], vec![b'1', b'.', b], vec![b'1', b'.', b, b'1'], vec![b'1', ec, b], vec![b'1', ec, b'1', b]] {
                c.check(f, &shape);
            }
        }
        c.done();
    });
    rep.note(format!("formats={} depth={}", cat.len(), depth));
    finish(&rep, &cli);
}
