//! C13 — digit separators never change a value and are accepted only where enabled.

use harness::cat::*;
use harness::common::*;
use harness::floatfam::show_trunc;
use lexical_core::{ParseFloatOptions, ParseIntegerOptions};
use vkit::gen;
use vkit::gram::{classify_separators, run_enabled, FmtDesc, Punct};
use vkit::out::*;
use vkit::par::par_items;

fn exp_char(d: &FmtDesc) -> u8 {
    if d.mantissa_radix != d.exponent_base {
        b'p'
    } else if d.mantissa_radix >= 15 || d.exponent_radix >= 15 {
        b'^'
    } else {
        b'e'
    }
}

#[derive(Clone, Debug, PartialEq)]
enum R {
    Ok(u128, usize),
    Err(String),
    Panic,
}

struct Ent<'e> {
    ty: &'static str,
    is_float: bool,
    parse: Box<dyn Fn(&[u8]) -> R + 'e>,
    partial: Box<dyn Fn(&[u8]) -> R + 'e>,
}

fn entries<'e>(f: &'e CatFmt, fo: &'e ParseFloatOptions, io: &'e ParseIntegerOptions) -> Vec<Ent<'e>> {
    fn fl<T: Flt>(r: Result<PRes<T>, String>, n: usize) -> R {
        match r {
            Ok(Ok(v)) => R::Ok(if T::FMT.is_nan(v.to_bits64()) { u128::MAX } else { v.to_bits64() as u128 }, n),
            Ok(Err(e)) => R::Err(format!("{:?}", e)),
            Err(_) => R::Panic,
        }
    }
    fn flp<T: Flt>(r: Result<PRes<(T, usize)>, String>) -> R {
        match r {
            Ok(Ok((v, n))) => R::Ok(if T::FMT.is_nan(v.to_bits64()) { u128::MAX } else { v.to_bits64() as u128 }, n),
            Ok(Err(e)) => R::Err(format!("{:?}", e)),
            Err(_) => R::Panic,
        }
    }
    vec![
        Ent { ty: "f64", is_float: true, parse: Box::new(move |b| fl::<f64>(guarded(|| (f.f64.parse)(b, fo)), b.len())), partial: Box::new(move |b| flp::<f64>(guarded(|| (f.f64.partial)(b, fo)))) },
        Ent { ty: "f32", is_float: true, parse: Box::new(move |b| fl::<f32>(guarded(|| (f.f32.parse)(b, fo)), b.len())), partial: Box::new(move |b| flp::<f32>(guarded(|| (f.f32.partial)(b, fo)))) },
        Ent {
            ty: "i64",
            is_float: false,
            parse: Box::new(move |b| match guarded(|| (f.i64.parse)(b, io)) {
                Ok(Ok(v)) => R::Ok(v as i128 as u128, b.len()),
                Ok(Err(e)) => R::Err(format!("{:?}", e)),
                Err(_) => R::Panic,
            }),
            partial: Box::new(move |b| match guarded(|| (f.i64.partial)(b, io)) {
                Ok(Ok((v, n))) => R::Ok(v as i128 as u128, n),
                Ok(Err(e)) => R::Err(format!("{:?}", e)),
                Err(_) => R::Panic,
            }),
        },
        Ent {
            ty: "u128",
            is_float: false,
            parse: Box::new(move |b| match guarded(|| (f.u128.parse)(b, io)) {
                Ok(Ok(v)) => R::Ok(v, b.len()),
                Ok(Err(e)) => R::Err(format!("{:?}", e)),
                Err(_) => R::Panic,
            }),
            partial: Box::new(move |b| match guarded(|| (f.u128.partial)(b, io)) {
                Ok(Ok((v, n))) => R::Ok(v, n),
                Ok(Err(e)) => R::Err(format!("{:?}", e)),
                Err(_) => R::Panic,
            }),
        },
    ]
}

struct Ck<'a> {
    rep: &'a Report,
    fam: Fam<'a>,
    p: Punct,
}

impl<'a> Ck<'a> {
    /// (a): accepted with separators => separators are in enabled positions and deleting them
    /// keeps the value.
    fn check_a(&mut self, f: &CatFmt, ents: &[Ent], s: &[u8]) {
        self.fam.states += 1;
        self.fam.cases += 1;
        let d = &f.desc;
        if !s.contains(&d.sep) {
            return;
        }
        for e in ents {
            self.fam.calls += 1;
            let r = (e.parse)(s);
            let v = match r {
                R::Ok(v, _) => v,
                _ => continue,
            };
            self.fam.nontrivial += 1;
            let key_of = |kind: &str| format!("{}|{}|{}|{}", d.name, e.ty, kind, hex(s));
            // integers have a single component: a point / exponent makes the string a non-integer
            let runs = classify_separators(d, &self.p, s);
            match runs {
                None => self.fam.bump("separator_outside_components"),
                Some(runs) => {
                    for r in &runs {
                        if !e.is_float && r.component != 0 {
                            continue;
                        }
                        match run_enabled(d, r) {
                            Some(true) => {}
                            None => self.fam.bump("run_alone_not_judged"),
                            Some(false) => {
                                let kind = format!("a-{}-{}{}", ["int", "frac", "exp"][r.component], format!("{:?}", r.pos).to_lowercase(), if r.len > 1 { "-run" } else { "" });
                                self.rep.violation(key_of(&kind), format!("C13 [{}] parse::<{}>({:?}) is accepted but the {}-separator run of length {} at byte {} in component {} is not enabled by the flags", d.name, e.ty, show_trunc(s), format!("{:?}", r.pos).to_lowercase(), r.len, r.at, ["integer", "fraction", "exponent"][r.component]));
                            }
                        }
                    }
                }
            }
            let t: Vec<u8> = s.iter().copied().filter(|&c| c != d.sep).collect();
            self.fam.calls += 1;
            match (e.parse)(&t) {
                R::Ok(w, _) if w == v => {}
                other => {
                    self.rep.violation(key_of("a-value"), format!("C13 [{}] parse::<{}>({:?}) = {:#x} but without separators {:?} gives {:?}", d.name, e.ty, show_trunc(s), v, show_trunc(&t), other));
                }
            }
        }
    }

    /// (b): enabled insertions into an accepted separator-free string keep it accepted with the
    /// same value. (c): separator-free strings behave as under the separator-free twin.
    fn check_bc(&mut self, f: &CatFmt, ents: &[Ent], twin: &[Ent], t: &[u8]) {
        let d = &f.desc;
        if t.contains(&d.sep) {
            return;
        }
        self.fam.states += 1;
        self.fam.cases += 1;
        for (e, tw) in ents.iter().zip(twin.iter()) {
            self.fam.calls += 4;
            let (a, b) = ((e.parse)(t), (tw.parse)(t));
            let (pa, pb) = ((e.partial)(t), (tw.partial)(t));
            if a != b || pa != pb {
                // "c-partial-empty" (a recorded known finding) is the case of an input with no digit
                // after the optional sign; an input that starts with a digit is never that case
                let body = match t.first() {
                    Some(b'+') => &t[1..],
                    Some(b'-') if !e.ty.starts_with('u') => &t[1..], // '-' is no sign for unsigned types
                    _ => t,
                };
                let digitless = !matches!(body.first(), Some(&c) if matches!(vkit::big::digit_value(c), Some(v) if v < d.mantissa_radix));
                let kind = if a != b { "c-complete" } else if digitless && matches!((&pa, &pb), (R::Err(_), R::Ok(_, _)) | (R::Ok(_, _), R::Err(_))) && matches!((&pa, &pb), (R::Err(x), _) | (_, R::Err(x)) if x.starts_with("Empty")) { "c-partial-empty" } else { "c-partial" };
                self.rep.violation(
                    format!("{}|{}|{}|{}", d.name, e.ty, kind, hex(t)),
                    format!("C13 [{}] separator-free input {:?} ({}): format gives {:?} / partial {:?}, its separator-free counterpart gives {:?} / partial {:?}", d.name, show_trunc(t), e.ty, a, pa, b, pb),
                );
                continue;
            }
            let v = match a {
                R::Ok(v, _) => v,
                _ => continue,
            };
            // insertion points per component
            let comps = components(d, &self.p, t, e.is_float);
            for (ci, (lo, hi)) in comps.iter().enumerate() {
                if hi <= lo {
                    continue; // component without a digit
                }
                let mut points: Vec<(usize, bool)> = Vec::new(); // (byte position, enabled)
                points.push((*lo, d.leading[ci]));
                for k in lo + 1..*hi {
                    points.push((k, d.internal[ci]));
                }
                points.push((*hi, d.trailing[ci]));
                for (pos, enabled) in points {
                    for len in [1usize, 2] {
                        let ok = enabled && (len == 1 || d.consecutive[ci]);
                        if !ok {
                            continue;
                        }
                        let mut s = t[..pos].to_vec();
                        s.extend(std::iter::repeat(d.sep).take(len));
                        s.extend_from_slice(&t[pos..]);
                        self.fam.calls += 1;
                        self.fam.bump("insertions");
                        match (e.parse)(&s) {
                            R::Ok(w, _) if w == v => {}
                            other => {
                                self.rep.violation(
                                    format!("{}|{}|b|{}", d.name, e.ty, hex(&s)),
                                    format!("C13 [{}] {:?} is accepted as {:#x} ({}), but with an enabled separator run inserted, {:?} gives {:?}", d.name, show_trunc(t), v, e.ty, show_trunc(&s), other),
                                );
                            }
                        }
                    }
                }
            }
        }
    }
    fn done(self) {
        self.fam.finish();
    }
}

/// byte ranges [lo, hi) of the digit runs of each component of a separator-free number
fn components(d: &FmtDesc, p: &Punct, t: &[u8], is_float: bool) -> Vec<(usize, usize)> {
    let isd = |c: u8, r: u32| matches!(vkit::big::digit_value(c), Some(v) if v < r);
    let n = t.len();
    let mut i = 0;
    if i < n && (t[i] == b'+' || t[i] == b'-') {
        i += 1;
    }
    if d.prefix != 0 && i + 1 < n && t[i] == b'0' && t[i + 1].eq_ignore_ascii_case(&d.prefix) {
        i += 2;
    }
    let lo = i;
    while i < n && isd(t[i], d.mantissa_radix) {
        i += 1;
    }
    let mut v = vec![(lo, i)];
    if !is_float {
        return v;
    }
    if i < n && t[i] == p.decimal_point {
        i += 1;
        let lo = i;
        while i < n && isd(t[i], d.mantissa_radix) {
            i += 1;
        }
        v.push((lo, i));
    } else {
        v.push((0, 0));
    }
    if i < n && t[i].eq_ignore_ascii_case(&p.exponent) {
        i += 1;
        if i < n && (t[i] == b'+' || t[i] == b'-') {
            i += 1;
        }
        let lo = i;
        while i < n && isd(t[i], d.exponent_radix) {
            i += 1;
        }
        v.push((lo, i));
    } else {
        v.push((0, 0));
    }
    v
}

fn twin_name(d: &FmtDesc) -> String {
    if let Some(rest) = d.name.strip_prefix("sepf_") {
        if let Some((base, _)) = rest.rsplit_once("__") {
            return format!("twinf_{}", base);
        }
    }
    let n: &'static str = match d.name {
        "sepx_hex_p" | "sepx_hex_p_exp_i" | "sepx_hex_p_exp_ilt" => "twin_hex_p",
        "sepx_hex_hexexp" => "twin_hex_hexexp",
        "sepx_dec_hexexp" => "twin_dec_hexexp",
        "sepx_prefix_suffix" => "twin_prefix_suffix",
        _ => "STANDARD",
    };
    n.to_string()
}

fn long_strings(d: &FmtDesc, ec: u8) -> Vec<Vec<u8>> {
    let mut v = Vec::new();
    let dg = |n: usize| -> Vec<u8> { (0..n).map(|i| b"1234567890"[i % 10].min(vkit::big::digit_char(d.mantissa_radix - 1))).collect() };
    for n in [1usize, 2, 7, 8, 9, 10, 15, 16, 17, 19, 20, 21, 40] {
        v.push(dg(n));
        let mut s = b"1.".to_vec();
        s.extend(dg(n));
        v.push(s.clone());
        s.push(ec);
        s.extend_from_slice(b"12");
        v.push(s);
        let mut s = dg(n);
        s.push(b'.');
        s.extend(dg(n));
        v.push(s);
        let mut s = b"0.".to_vec();
        s.extend(std::iter::repeat(b'0').take(n));
        s.extend(dg(3));
        v.push(s);
        let mut s = b"-".to_vec();
        s.extend(dg(n));
        s.push(ec);
        s.extend_from_slice(b"-1");
        s.extend(std::iter::repeat(b'0').take(n.min(3)));
        v.push(s);
    }
    // exact halfway strings of f64 in radix 10 (3 binades): big-integer / slow paths through the
    // skipping iterators
    if d.mantissa_radix == 10 && d.exponent_base == 10 {
        let mids: Vec<(vkit::float::Fmt, u64)> = vec![
            (vkit::float::F64, 0x3ff0000000000000),
            (vkit::float::F64, 0x3ff0000000000001),
            (vkit::float::F64, 0x3fb999999999999a),
            (vkit::float::F64, 0x4340000000000000),
            (vkit::float::F64, 0x4340000000000001),
            (vkit::float::F64, 0x0010000000000001),
            (vkit::float::F32, 0x3f800000),
            (vkit::float::F32, 0x3f800001),
            (vkit::float::F32, 0x3dcccccd),
            (vkit::float::F32, 0x4b800000),
            // below 1 with leading fraction zeros (0.001, 0.00001 and their odd neighbours)
            (vkit::float::F64, 0x3f50624dd2f1a9fc),
            (vkit::float::F64, 0x3f50624dd2f1a9fd),
            (vkit::float::F64, 0x3ee4f8b588e368f1),
            (vkit::float::F32, 0x3a83126f),
            (vkit::float::F32, 0x3a831270),
        ];
        for (fm, bits) in mids {
            if let Some((ds, q)) = gen::midpoint_expansion(fm, bits, 10) {
                // integer significand with exponent
                if ds.len() < 120 {
                    let mut s = ds.clone();
                    s.push(ec);
                    s.extend(format!("{}", q).as_bytes());
                    v.push(s);
                }
                // point after the first digit, with exponent
                let mut s = vec![ds[0], b'.'];
                s.extend_from_slice(&ds[1..]);
                if ds.len() == 1 {
                    s.push(b'0');
                }
                s.push(ec);
                s.extend(format!("{}", q + ds.len() as i64 - 1).as_bytes());
                v.push(s);
                // plain positional spelling (point inside or just before the digits), with a trailing 0 and 00
                let k = -q; // fraction digits
                if k > 0 && k < 120 && ds.len() < 120 {
                    let k = k as usize;
                    let mut s: Vec<u8> = Vec::new();
                    if ds.len() > k {
                        s.extend_from_slice(&ds[..ds.len() - k]);
                        s.push(b'.');
                        s.extend_from_slice(&ds[ds.len() - k..]);
                    } else {
                        s.extend_from_slice(b"0.");
                        s.extend(std::iter::repeat(b'0').take(k - ds.len()));
                        s.extend_from_slice(&ds);
                    }
                    v.push(s.clone());
                    // just above the halfway point
                    let mut up = s.clone();
                    up.push(b'1');
                    v.push(up);
                    s.push(b'0');
                    v.push(s.clone());
                    s.extend_from_slice(b"00");
                    v.push(s);
                } else if q >= 0 && ds.len() < 40 {
                    // integer midpoint: digits.000
                    let mut s = ds.clone();
                    s.extend(std::iter::repeat(b'0').take(q as usize));
                    s.extend_from_slice(b".000");
                    v.push(s);
                }
            }
        }
    }
    v
}

fn main() {
    let cli = parse_cli();
    silence_panics();
    let mut rep = Report::new("C13", config_name(), &cli.tier);
    rep.max_per_group = 300;
    rep.max_violations = 60000;
    if let Err(e) = vkit::self_check_all() {
        rep.machinery_error(format!("self-check: {e}"));
        finish(&rep, &cli);
    }
    let thorough = cli.tier == "thorough";
    let all = catalogue(&[]);
    let find = |name: &str| all.iter().find(|c| c.desc.name == name).cloned();
    let mut cat: Vec<CatFmt> = all.iter().filter(|c| matches!(c.group, "SEP15" | "SEPX") && c.lexical_valid).cloned().collect();
    if thorough {
        // prebuilt formats that have separator flags (twin = none: parts a and b only via STANDARD-free check)
        cat.extend(all.iter().filter(|c| c.group == "PREBUILT" && c.desc.sep != 0 && c.desc.has_sep_flags() && c.desc.prefix == 0 && c.desc.suffix == 0).cloned());
    }
    if let Some(key) = &cli.replay {
        let p: Vec<&str> = key.split('|').collect();
        let s = unhex(p[3]);
        if let Some(f) = find(p[0]) {
            let ec = exp_char(&f.desc);
            let fo = ParseFloatOptions::builder().exponent(ec).build_unchecked();
            let io = ParseIntegerOptions::new();
            let ents = entries(&f, &fo, &io);
            let twin = find(&twin_name(&f.desc)).unwrap();
            let tents = entries(&twin, &fo, &io);
            let mut p2 = Punct::standard();
            p2.exponent = ec;
            let mut c = Ck { rep: &rep, fam: Fam::new(&rep, "replay"), p: p2 };
            c.check_a(&f, &ents, &s);
            let t: Vec<u8> = s.iter().copied().filter(|&c| c != f.desc.sep).collect();
            c.check_bc(&f, &ents, &tents, &t);
            if p[2].starts_with('c') {
                c.check_bc(&f, &ents, &tents, &s);
            }
            c.done();
        }
        finish(&rep, &cli);
    }
    let depth = if thorough { 7 } else { 6 };
    let idx: Vec<usize> = (0..cat.len()).collect();
    par_items(&idx, cli.threads, |_, &i| {
        let f = &cat[i];
        let d = &f.desc;
        let ec = exp_char(d);
        let fo = ParseFloatOptions::builder().exponent(ec).build_unchecked();
        let io = ParseIntegerOptions::new();
        let ents = entries(f, &fo, &io);
        let twin = if f.group == "PREBUILT" { None } else { find(&twin_name(d)) };
        let tents: Option<Vec<Ent>> = twin.as_ref().map(|t| entries(t, &fo, &io));
        let mut p = Punct::standard();
        p.exponent = ec;
        let mut c = Ck { rep: &rep, fam: Fam::new(&rep, &format!("C13:{}", f.group)), p };
        let maxd = vkit::big::digit_char(d.mantissa_radix - 1);
        let alpha: Vec<Vec<u8>> = vec![b"-".to_vec(), b"1".to_vec(), b"0".to_vec(), vec![maxd], vec![d.sep], b".".to_vec(), vec![ec], b"x".to_vec()];
        let aref: Vec<&[u8]> = alpha.iter().map(|v| &v[..]).collect();
        gen::for_each_string(&aref, depth, &mut |s: &[u8]| {
            if s.contains(&d.sep) {
                c.check_a(f, &ents, s);
            } else if let Some(t) = &tents {
                c.check_bc(f, &ents, t, s);
            }
        });
        for t in long_strings(d, ec) {
            if let Some(te) = &tents {
                c.check_bc(f, &ents, te, &t);
            }
            // one separator run (length 1 and 2) at every position
            for pos in 0..=t.len() {
                for len in [1usize, 2] {
                    let mut s = t[..pos].to_vec();
                    s.extend(std::iter::repeat(d.sep).take(len));
                    s.extend_from_slice(&t[pos..]);
                    c.check_a(f, &ents, &s);
                }
            }
        }
        if c.fam.want_sample() {
            rep.sample(format!("C13:{} format {} alphabet {:?}", f.group, d.name, alpha.iter().map(|a| show_bytes(a)).collect::<Vec<_>>()));
        }
        c.done();
    });
    rep.note(format!("formats={} depth={}", cat.len(), depth));
    finish(&rep, &cli);
}
