//! C14 — float write options control digits and notation exactly as documented.
//! Oracle R-wopts: relative to the DEFAULT output of the same float in the same format.

use harness::common::*;
use harness::fmtcat::*;
use harness::optfam::*;
use lexical_core::WriteFloatOptions;
use vkit::big::Big;
use vkit::out::*;
use vkit::par::par_items;
use vkit::simple::{parse_full, Grammar, Simple};

/// significant digits (no leading / trailing zeros) and the exponent (in radix) of the LAST digit
fn sig(x: &Simple) -> (Vec<u8>, i128) {
    let mut ds: Vec<u8> = x.digits.clone();
    let mut q: i128 = x.exp - x.frac_len as i128;
    while ds.len() > 1 && ds[0] == b'0' {
        ds.remove(0);
    }
    while ds.len() > 1 && *ds.last().unwrap() == b'0' {
        ds.pop();
        q += 1;
    }
    (ds, q)
}

/// digits written from the first non-zero digit to the end of the mantissa (padding included)
fn written_digits(x: &Simple) -> usize {
    let lead = x.digits.iter().take_while(|&&c| c == b'0').count();
    x.digits.len() - lead
}

/// round the digit string `d` (radix r) to `n` digits; returns (digits, dropped count, carried)
fn round_digits(d: &[u8], radix: u32, n: usize, truncate: bool) -> (Vec<u8>, usize, bool) {
    if d.len() <= n {
        return (d.to_vec(), 0, false);
    }
    let dropped = d.len() - n;
    let head = Big::from_digits(&d[..n], radix);
    if truncate {
        return (head.to_digits(radix), dropped, false);
    }
    // compare 2 * tail with radix^dropped
    let mut tail2 = Big::from_digits(&d[n..], radix);
    tail2.mul_small(2);
    let unit = Big::pow(radix as u64, dropped as u64);
    let up = match tail2.cmp(&unit) {
        std::cmp::Ordering::Greater => true,
        std::cmp::Ordering::Less => false,
        std::cmp::Ordering::Equal => !head.is_even_in_radix_digit(&d[..n], radix),
    };
    let mut h = head;
    if up {
        h.add_small(1);
    }
    let out = h.to_digits(radix);
    let carried = out.len() > n;
    (out, dropped, carried)
}

trait LastDigitParity {
    fn is_even_in_radix_digit(&self, digits: &[u8], radix: u32) -> bool;
}
impl LastDigitParity for Big {
    fn is_even_in_radix_digit(&self, digits: &[u8], _radix: u32) -> bool {
        // ties go to the even LAST DIGIT
        vkit::big::digit_value(*digits.last().unwrap()).unwrap() % 2 == 0
    }
}

fn strip(ds: &[u8], q: i128) -> (Vec<u8>, i128) {
    let mut d = ds.to_vec();
    let mut q = q;
    while d.len() > 1 && *d.last().unwrap() == b'0' {
        d.pop();
        q += 1;
    }
    (d, q)
}

struct Ck<'a, T: Flt> {
    rep: &'a Report,
    fam: Fam<'a>,
    fmt: FloatFmt<T>,
    g: Grammar,
    dflt: WriteFloatOptions,
    buf: Vec<u8>,
}

impl<'a, T: Flt> Ck<'a, T> {
    fn check(&mut self, wo: &WOpt, o: &WriteFloatOptions, bits: u64) {
        let f = T::FMT;
        let v = T::from_bits64(bits);
        self.fam.states += 1;
        self.fam.cases += 1;
        self.fam.calls += 2;
        let key = format!("{}|{}|{}|{:#x}", T::NAME, self.fmt.name, wo.key(), bits);
        let fmt = self.fmt;
        let need = (fmt.bufsize)(o).max((fmt.bufsize)(&self.dflt));
        if self.buf.len() < need {
            self.buf.resize(need, 0);
        }
        let buf = &mut self.buf;
        let dflt = self.dflt.clone();
        let r0 = guarded(|| {
            let n = (fmt.write)(v, &mut buf[..], &dflt);
            buf[..n].to_vec()
        });
        let r1 = guarded(|| {
            let n = (fmt.write)(v, &mut buf[..], o);
            buf[..n].to_vec()
        });
        let (s0, s1) = match (r0, r1) {
            (Ok(a), Ok(b)) => (a, b),
            (a, b) => {
                self.rep.violation(key, format!("C14 [{}] {} : write {:#x} panicked: default {:?} / options {:?}", fmt.name, wo.show(), bits, a.map(|x| show_bytes(&x)), b.map(|x| show_bytes(&x))));
                return;
            }
        };
        let (x0, x1) = match (parse_full(&self.g, &s0), parse_full(&self.g, &s1)) {
            (Some(a), Some(b)) => (a, b),
            _ => {
                self.rep.violation(key, format!("C14 [{}] {} : output {:?} (default {:?}) of {:#x} does not use the configured decimal point / exponent characters only", fmt.name, wo.show(), show_bytes(&s1), show_bytes(&s0), bits));
                return;
            }
        };
        if self.fam.want_sample() {
            self.rep.sample(format!("{} [{}] {} {:#x}: default {:?} -> {:?}", self.fam.name, fmt.name, wo.show(), bits, show_bytes(&s0), show_bytes(&s1)));
        }
        let fail = |me: &Self, what: &str| {
            me.rep.violation(key.clone(), format!("C14 [{}] {} : {:#x} ({}) default {:?} -> {:?}: {}", fmt.name, wo.show(), bits, v.std_display(), show_bytes(&s0), show_bytes(&s1), what));
        };
        if x1.neg != f.is_neg(bits) {
            fail(self, "wrong sign");
            return;
        }
        let (d0, q0) = sig(&x0);
        let (d1, q1) = sig(&x1);
        if d0 == b"0" {
            return; // zero (or underflow to zero in a generic radix): nothing to round
        }
        let radix = fmt.radix;
        // 1+2. digits = default digits rounded to max
        let (mut e, mut qe, mut carried) = (d0.clone(), q0, false);
        if let Some(max) = wo.max {
            if d0.len() > max {
                self.fam.nontrivial += 1;
                let (r, dropped, c) = round_digits(&d0, radix, max, wo.truncate);
                e = r;
                qe = q0 + dropped as i128;
                carried = c;
                if c {
                    self.fam.bump("carried_new_digit");
                }
            }
        }
        let (e_s, qe_s) = strip(&e, qe);
        if (d1.clone(), q1) != (e_s.clone(), qe_s) {
            fail(self, &format!("value is {}*r^{} but the default digits rounded ({}) to max={:?} give {}*r^{}", String::from_utf8_lossy(&d1), q1, if wo.truncate { "truncate" } else { "half-even" }, wo.max, String::from_utf8_lossy(&e_s), qe_s));
            return;
        }
        if let Some(max) = wo.max {
            if d1.len() > max {
                fail(self, "more significant digits than max_significant_digits");
                return;
            }
        }
        // written digits (zero padding included) stay within max, except for what an integral
        // part and the single mandatory fraction digit need
        if let Some(max) = wo.max {
            let written = written_digits(&x1);
            let lead = x1.digits.iter().take_while(|&&c| c == b'0').count();
            let int_len = (x1.digits.len() - x1.frac_len).saturating_sub(lead);
            let mandatory = if int_len > 0 && x1.frac_len > 0 { int_len + 1 } else { int_len };
            if written > max.max(mandatory) {
                fail(self, &format!("{} digits written (zero padding included), max_significant_digits={}", written, max));
                return;
            }
        }
        // trimmed as an integer?
        let frac_zero = x1.digits[x1.digits.len() - x1.frac_len..].iter().all(|&c| c == b'0');
        let trimmed_int = wo.trim && !x1.has_point;
        if let Some(min) = wo.min {
            let written = written_digits(&x1);
            let want = wo.max.map_or(min, |m| min.min(m));
            if written < want && !trimmed_int {
                fail(self, &format!("only {} digits written, min_significant_digits={}", written, min));
                return;
            }
        }
        // 3. notation
        let e0 = q0 + d0.len() as i128 - 1;
        let e1 = if carried { e0 + 1 } else { e0 };
        let nb = wo.neg_break.unwrap_or(-5) as i128;
        let pb = wo.pos_break.unwrap_or(9) as i128;
        let judge = |e: i128| !fmt.no_exponent_notation && (fmt.required_exponent_notation || e < nb || e > pb);
        let allowed = [judge(e0), judge(e1)];
        // mixed-base formats (mantissa radix != exponent base) have no documented unit for the break points
        let binary_exponent_radix = fmt.base != fmt.radix;
        if fmt.no_exponent_notation && x1.has_exp {
            fail(self, "exponent notation although the format forbids it");
            return;
        }
        if fmt.required_exponent_notation && !x1.has_exp {
            fail(self, "no exponent notation although the format requires it");
            return;
        }
        if !binary_exponent_radix && !allowed.contains(&x1.has_exp) {
            fail(self, &format!("exponent notation = {} but the scientific exponent {} (rounded: {}) and break points ({}, {}) say {}", x1.has_exp, e0, e1, nb, pb, allowed[0]));
            return;
        }
        if x1.has_exp {
            self.fam.bump("exponent_notation");
            // scientific: exactly one digit before the point
            if x1.digits.len() - x1.frac_len != 1 {
                fail(self, "exponent notation without exactly one integer digit");
                return;
            }
        }
        // 4. trim_floats
        if wo.trim {
            let exempt = x1.has_exp && (s1.len() > 0 && false);
            if x1.has_point && frac_zero && !exempt {
                // `.0` (or zero padding) kept although trim_floats is set
                if !(x1.has_exp && self.no_exp_without_fraction()) {
                    fail(self, "trim_floats set but an all-zero fraction was written");
                    return;
                }
            }
        } else if !x1.has_point || x1.frac_len == 0 {
            fail(self, "trim_floats not set but no fraction digit was written");
            return;
        }
    }
    fn no_exp_without_fraction(&self) -> bool {
        self.fmt.name == "w_no_exponent_without_fraction"
    }
    fn done(self) {
        self.fam.finish();
    }
}

fn values<T: Flt>(thorough: bool) -> Vec<u64> {
    let f = T::FMT;
    let mut v: Vec<u64> = Vec::new();
    let (qlo, qhi) = if f.mant_bits == 52 { (-325, 309) } else { (-46, 39) };
    // SD: 1- and 2-digit decimals at every exponent (step), with neighbours
    let sd = harness::valfam::sd_values::<T>(2, qlo, qhi);
    v.extend(sd.iter().step_by(if thorough { 3 } else { 67 }));
    // BIN: two patterns per binade
    for ef in (0..f.exp_max_field()).step_by(if thorough { 1 } else { 23 }) {
        v.push((ef << f.mant_bits) | (0x5555_5555_5555_5555 & f.mant_mask()));
        v.push((ef << f.mant_bits) | f.mant_mask());
    }
    // carry values: 9.99.., 0.0999.., 99999.5 patterns at every length
    for n in 1..=17usize {
        for s in [format!("9.{}", "9".repeat(n)), format!("0.0{}", "9".repeat(n)), format!("0.{}6", "9".repeat(n)), format!("0.00{}6", "9".repeat(n)), format!("{}.5", "9".repeat(n)), format!("{}5", "9".repeat(n)), format!("1.{}5", "0".repeat(n)), format!("{}e20", "9".repeat(n)), format!("0.{}15", "0".repeat(n)), format!("2.{}5", "5".repeat(n))] {
            if let Some(b) = T::std_parse(&s) {
                if f.is_finite(b) {
                    v.push(b);
                }
            }
        }
    }
    for s in ["0.1", "0.15", "0.25", "0.35", "1.5", "2.5", "0.5", "1", "10", "100000", "123456789", "1e9", "1e10", "1e-5", "1e-6", "0.00001234", "5e-324", "1.7976931348623157e308", "3.4028235e38", "1e-45"] {
        if let Some(b) = T::std_parse(s) {
            if f.is_finite(b) {
                v.push(b);
            }
        }
    }
    v.extend(harness::valfam::break_values::<T>());
    v.sort_unstable();
    v.dedup();
    v.retain(|&b| b != 0);
    let n = v.len();
    for i in (0..n).step_by(9) {
        let b = v[i];
        v.push(b | f.sign_mask());
    }
    v
}

fn run<T: Flt>(rep: &Report, cli: &Cli, replay: Option<(&str, &str, u64)>) {
    let thorough = cli.tier == "thorough";
    let mut fmts: Vec<(FloatFmt<T>, u32)> = vec![(standard::<T>(), if thorough { 2 } else { 1 })];
    for f in writer_formats::<T>() {
        if matches!(f.name, "w_no_exponent_notation" | "w_required_exponent_notation" | "w_no_exponent_without_fraction" | "w2_required_exponent_notation" | "w2_no_exponent_notation" | "w3_required_exponent_notation" | "w3_no_exponent_notation") {
            fmts.push((f, if f.radix == 10 && thorough { 1 } else { 0 }));
        }
    }
    for f in radix_formats::<T>() {
        if matches!(f.radix, 2 | 3 | 16 | 36) {
            fmts.push((f, 0));
        }
    }
    let vals = values::<T>(thorough);
    for (fmt, level) in fmts {
        if let Some((name, _, _)) = replay {
            if fmt.name != name {
                continue;
            }
        }
        let ec = fmt.exp_char();
        let opts: Vec<WOpt> = match replay {
            Some((_, ok, _)) => vec![WOpt::from_key(ok)],
            None => wopts(level, ec),
        };
        let idx: Vec<usize> = (0..opts.len()).collect();
        par_items(&idx, cli.threads, |_, &i| {
            let wo = &opts[i];
            let o = match wo.build() {
                Some(o) => o,
                None => return,
            };
            let mut g = Grammar::radix(fmt.radix, fmt.exp_radix, wo.exponent);
            g.point = wo.point;
            let dflt = WriteFloatOptions::builder().exponent(wo.exponent).decimal_point(wo.point).build().unwrap();
            let mut c = Ck::<T> { rep, fam: Fam::new(rep, &format!("C14:{}:{}", T::NAME, fmt.name)), fmt, g, dflt, buf: vec![0u8; 4096] };
            for &bits in &vals {
                if let Some((_, _, rb)) = replay {
                    if rb != bits {
                        continue;
                    }
                }
                c.check(wo, &o, bits);
            }
            c.done();
        });
    }
}

fn main() {
    let cli = parse_cli();
    silence_panics();
    let mut rep = Report::new("C14", config_name(), &cli.tier);
    rep.max_per_group = 6;
    rep.max_violations = 6000;
    if let Some(key) = &cli.replay {
        let p: Vec<&str> = key.split('|').collect();
        let bits = u64::from_str_radix(p[3].trim_start_matches("0x"), 16).unwrap();
        if p[0] == "f64" {
            run::<f64>(&rep, &cli, Some((p[1], p[2], bits)));
        } else {
            run::<f32>(&rep, &cli, Some((p[1], p[2], bits)));
        }
        finish(&rep, &cli);
    }
    run::<f64>(&rep, &cli, None);
    run::<f32>(&rep, &cli, None);
    finish(&rep, &cli);
}
