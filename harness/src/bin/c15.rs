//! C15 — special values and signed zero are handled consistently (parse and write).

use harness::cat::*;
use harness::common::*;
use harness::floatfam::show_trunc;
use harness::fmtcat;
use lexical_core::{ParseFloatOptions, WriteFloatOptions};
use vkit::gen;
use vkit::gram::FmtDesc;
use vkit::out::*;
use vkit::par::par_items;

fn leak(s: &[u8]) -> &'static [u8] {
    Box::leak(s.to_vec().into_boxed_slice())
}

#[derive(Clone, Debug)]
struct Triple {
    nan: Option<&'static [u8]>,
    inf: Option<&'static [u8]>,
    infinity: Option<&'static [u8]>,
}

fn triples() -> Vec<Triple> {
    let long_n: Vec<u8> = std::iter::once(b'n').chain(std::iter::repeat(b'a').take(49)).collect();
    let long_i: Vec<u8> = std::iter::once(b'i').chain(std::iter::repeat(b'N').take(49)).collect();
    let nans: Vec<Option<&'static [u8]>> = vec![Some(b"NaN"), None, Some(b"n"), Some(b"nan"), Some(b"NAN"), Some(b"Nil"), Some(leak(&long_n))];
    let infs: Vec<Option<&'static [u8]>> = vec![Some(b"inf"), None, Some(b"i"), Some(b"Inf"), Some(b"INF")];
    let infinities: Vec<Option<&'static [u8]>> = vec![Some(b"infinity"), None, Some(b"inf"), Some(b"Infinity"), Some(b"infinite"), Some(b"in"), Some(leak(&long_i))];
    let mut v = Vec::new();
    for &n in &nans {
        for &i in &infs {
            for &f in &infinities {
                v.push(Triple { nan: n, inf: i, infinity: f });
            }
        }
    }
    v
}

/// Reference: does `body` (sign removed) equal a configured special string under the format?
fn ref_special(d: &FmtDesc, t: &Triple, body: &[u8]) -> Option<bool> {
    // Some(true) = NaN, Some(false) = infinity
    if d.no_special {
        return None;
    }
    let stripped: Vec<u8> = if d.special_sep && d.sep != 0 { body.iter().copied().filter(|&c| c != d.sep).collect() } else { body.to_vec() };
    let eq = |w: &[u8]| {
        stripped.len() == w.len()
            && stripped.iter().zip(w).all(|(&a, &b)| if d.case_sensitive_special { a == b } else { a.eq_ignore_ascii_case(&b) })
    };
    if let Some(n) = t.nan {
        if eq(n) {
            return Some(true);
        }
    }
    if let Some(n) = t.inf {
        if eq(n) {
            return Some(false);
        }
    }
    if let Some(n) = t.infinity {
        if eq(n) {
            return Some(false);
        }
    }
    None
}

fn near_inputs(d: &FmtDesc, t: &Triple) -> Vec<Vec<u8>> {
    let mut out: Vec<Vec<u8>> = Vec::new();
    let words: Vec<&[u8]> = [t.nan, t.inf, t.infinity].iter().flatten().copied().collect();
    // also the default words, so that disabled (None) strings are probed too
    let mut all: Vec<&[u8]> = words.clone();
    all.extend([&b"NaN"[..], b"inf", b"infinity"]);
    for w in all {
        for k in 0..=w.len() {
            out.push(w[..k].to_vec());
        }
        for tail in [b'x', b'0', b'i', b'n', b'_', b'.', b'e', b'y'] {
            let mut s = w.to_vec();
            s.push(tail);
            out.push(s);
        }
        out.push(w.to_ascii_uppercase());
        out.push(w.to_ascii_lowercase());
        for k in 0..w.len() {
            let mut s = w.to_vec();
            s[k] ^= 0x20;
            out.push(s);
            for sub in [b'@', b'`', b'[', b'{', b'0'] {
                let mut s = w.to_vec();
                s[k] = sub;
                out.push(s);
            }
            // every byte at Hamming distance 1 from the letter or from its other-case form
            for bit in 0..8 {
                for base in [w[k], w[k] ^ 0x20] {
                    let mut s = w.to_vec();
                    s[k] = base ^ (1 << bit);
                    out.push(s);
                }
            }
            // separator (or '_' when the format has none) inserted at every position
            let sep = if d.sep != 0 { d.sep } else { b'_' };
            let mut s = w.to_vec();
            s.insert(k, sep);
            out.push(s.clone());
            s.insert(k, sep);
            out.push(s);
        }
        if w.len() <= 10 {
            let sep = if d.sep != 0 { d.sep } else { b'_' };
            let mut s = w.to_vec();
            s.push(sep);
            out.push(s);
        }
    }
    out.sort();
    out.dedup();
    let mut signed = Vec::new();
    for s in out {
        for sign in [&b""[..], b"+", b"-"] {
            let mut v = sign.to_vec();
            v.extend_from_slice(&s);
            signed.push(v);
        }
    }
    signed
}

struct Ck<'a> {
    rep: &'a Report,
    fam: Fam<'a>,
}

impl<'a> Ck<'a> {
    fn parse_case<T: Flt>(&mut self, f: &CatFmt, fns: FloatFns<T>, t: &Triple, tid: usize, o: &ParseFloatOptions, s: &[u8], numeric_only: bool) {
        self.fam.states += 1;
        self.fam.cases += 1;
        self.fam.calls += 2;
        let d = &f.desc;
        let key = || if numeric_only { format!("{}|{}|num|{}", d.name, T::NAME, hex(s)) } else { format!("{}|{}|t{}|{}", d.name, T::NAME, tid, hex(s)) };
        let (neg, body) = match s.first() {
            Some(b'-') => (true, &s[1..]),
            Some(b'+') => (false, &s[1..]),
            _ => (false, s),
        };
        let expect = if numeric_only { None } else { ref_special(d, t, body) };
        if expect.is_some() {
            self.fam.nontrivial += 1;
        }
        let c = guarded(|| (fns.parse)(s, o));
        let p = guarded(|| (fns.partial)(s, o));
        let fm = T::FMT;
        match &c {
            Err(pn) => {
                self.rep.violation(key(), format!("C15 [{}] parse::<{}>({:?}) panicked: {}", d.name, T::NAME, show_trunc(s), pn));
                return;
            }
            Ok(r) => {
                let got: Option<bool> = match r {
                    Ok(v) if fm.is_nan(v.to_bits64()) => Some(true),
                    Ok(v) if fm.abs(v.to_bits64()) == fm.inf_bits() => Some(false),
                    _ => None,
                };
                match (expect, got, r) {
                    (Some(true), Some(true), _) => {}
                    (Some(false), Some(false), Ok(v)) => {
                        if fm.is_neg(v.to_bits64()) != neg {
                            self.rep.violation(key(), format!("C15 [{}] parse::<{}>({:?}) = {}: sign of infinity not preserved", d.name, T::NAME, show_trunc(s), v.std_display()));
                        }
                    }
                    (None, Some(true), _) => {
                        self.rep.violation(key(), format!("C15 [{}] parse::<{}>({:?}) = NaN but the input is not the configured NaN string (nan={:?} inf={:?} infinity={:?})", d.name, T::NAME, show_trunc(s), t.nan.map(show_bytes), t.inf.map(show_bytes), t.infinity.map(show_bytes)));
                    }
                    (None, Some(false), Ok(v)) => {
                        // an infinity from a non-special input is only legitimate for a numeric overflow
                        if !body.iter().any(|c| c.is_ascii_digit()) || numeric_only_is_finite(body) {
                            self.rep.violation(key(), format!("C15 [{}] parse::<{}>({:?}) = {} but the input is not a configured infinity string (nan={:?} inf={:?} infinity={:?})", d.name, T::NAME, show_trunc(s), v.std_display(), t.nan.map(show_bytes), t.inf.map(show_bytes), t.infinity.map(show_bytes)));
                        }
                    }
                    (Some(k), _, r) => {
                        self.rep.violation(key(), format!("C15 [{}] parse::<{}>({:?}) = {:?} but it equals the configured {} string (nan={:?} inf={:?} infinity={:?})", d.name, T::NAME, show_trunc(s), r.as_ref().map(|v| v.std_display()), if k { "NaN" } else { "infinity" }, t.nan.map(show_bytes), t.inf.map(show_bytes), t.infinity.map(show_bytes)));
                    }
                    _ => {}
                }
            }
        }
        // partial: a special result must come from a real match of the consumed prefix
        if let Ok(Ok((v, n))) = &p {
            let b = v.to_bits64();
            let is_special = fm.is_nan(b) || fm.abs(b) == fm.inf_bits();
            if is_special && !numeric_only {
                let signlen = s.len() - body.len();
                let ok = *n >= signlen && *n <= s.len() && {
                    let e = ref_special(d, t, &s[signlen..*n]);
                    match e {
                        Some(true) => fm.is_nan(b),
                        Some(false) => !fm.is_nan(b) && fm.is_neg(b) == neg,
                        None => false,
                    }
                };
                if !ok {
                    self.rep.violation(key(), format!("C15 [{}] parse_partial::<{}>({:?}) = ({}, {}) but the consumed prefix is not a configured special string", d.name, T::NAME, show_trunc(s), v.std_display(), n));
                }
            }
            if fm.is_nan(b) && numeric_only {
                self.rep.violation(key(), format!("C15 [{}] parse_partial::<{}>({:?}) = NaN for a numeric input", d.name, T::NAME, show_trunc(s)));
            }
        } else if let Err(pn) = &p {
            self.rep.violation(key(), format!("C15 [{}] parse_partial::<{}>({:?}) panicked: {}", d.name, T::NAME, show_trunc(s), pn));
        }
        // signed zero
        if numeric_only {
            if let Ok(Ok(v)) = &c {
                if fm.abs(v.to_bits64()) == 0 && fm.is_neg(v.to_bits64()) != neg {
                    self.rep.violation(key(), format!("C15 [{}] parse::<{}>({:?}) = {}: sign of zero not preserved", d.name, T::NAME, show_trunc(s), v.std_display()));
                }
            }
        }
    }
    fn done(self) {
        self.fam.finish();
    }
}

fn idx0(n: usize) -> Vec<usize> {
    (0..n).collect()
}

fn numeric_only_is_finite(_body: &[u8]) -> bool {
    false
}

fn write_side<T: Flt>(rep: &Report) {
    let mut fam = Fam::new(rep, &format!("C15:WRITE:{}", T::NAME));
    let f = T::FMT;
    let std = fmtcat::standard::<T>();
    let mut buf = vec![0u8; 2048];
    // values: signed zeros, infinities, NaNs with every payload shape
    let qnan = f.inf_bits() | (1u64 << (f.mant_bits - 1));
    let vals: Vec<u64> = vec![0, f.sign_mask(), f.inf_bits(), f.inf_bits() | f.sign_mask(), qnan, qnan | f.sign_mask(), f.inf_bits() | 1, f.inf_bits() | 1 | f.sign_mask(), f.inf_bits() | f.mant_mask(), f.inf_bits() | f.mant_mask() | f.sign_mask()];
    for (tid, t) in triples().iter().enumerate() {
        // writer options only have nan and inf strings; `infinity_string` is an alias of inf
        let ob = WriteFloatOptions::builder().nan_string(t.nan).inf_string(t.inf);
        let o = match ob.build() {
            Ok(o) => o,
            Err(_) => continue,
        };
        for &bits in &vals {
            let v = T::from_bits64(bits);
            fam.states += 1;
            fam.cases += 1;
            fam.calls += 1;
            fam.nontrivial += 1;
            let key = format!("write|{}|t{}|{:#x}", T::NAME, tid, bits);
            buf.fill(0xEE);
            let size = (std.bufsize)(&o);
            let r = guarded(|| {
                let n = (std.write)(v, &mut buf[..size], &o);
                buf[..n].to_vec()
            });
            let is_nan = f.is_nan(bits);
            let is_inf = f.abs(bits) == f.inf_bits();
            let neg = f.is_neg(bits);
            let expected: Option<Vec<u8>> = if is_nan {
                t.nan.map(|w| w.to_vec())
            } else if is_inf {
                t.inf.map(|w| {
                    let mut s = if neg { b"-".to_vec() } else { Vec::new() };
                    s.extend_from_slice(w);
                    s
                })
            } else {
                Some(if neg { b"-0.0".to_vec() } else { b"0.0".to_vec() })
            };
            match (expected, r) {
                (Some(e), Ok(got)) => {
                    if e != got {
                        rep.violation(key, format!("C15 write {:#x} ({}) with nan={:?} inf={:?} = {:?} ; expected {:?}", bits, T::NAME, t.nan.map(show_bytes), t.inf.map(show_bytes), show_bytes(&got), show_bytes(&e)));
                    }
                }
                (None, Err(_)) => {
                    fam.bump("disabled_special_panicked");
                }
                (None, Ok(got)) => {
                    rep.violation(key, format!("C15 write {:#x} ({}) with the special string disabled returned {:?} instead of panicking", bits, T::NAME, show_bytes(&got)));
                }
                (Some(e), Err(p)) => {
                    rep.violation(key, format!("C15 write {:#x} ({}) panicked ({}) ; expected {:?}", bits, T::NAME, p, show_bytes(&e)));
                }
            }
        }
    }
    if fam.want_sample() {
        rep.sample(format!("{} values {:x?}", fam.name, vals));
    }
    fam.finish();
}

fn main() {
    let cli = parse_cli();
    silence_panics();
    let rep = Report::new("C15", config_name(), &cli.tier);
    if let Err(e) = vkit::self_check_all() {
        rep.machinery_error(format!("self-check: {e}"));
        finish(&rep, &cli);
    }
    let thorough = cli.tier == "thorough";
    let cat: Vec<CatFmt> = catalogue(&["STD", "SPECIAL"]).into_iter().filter(|c| c.lexical_valid).collect();
    let ts = triples();
    if let Some(key) = &cli.replay {
        let p: Vec<&str> = key.split('|').collect();
        if p[0] == "write" {
            write_side::<f64>(&rep);
            write_side::<f32>(&rep);
        } else {
            let numeric = p[2] == "num";
            let tid: usize = if numeric { 0 } else { p[2][1..].parse().unwrap() };
            let s = unhex(p[3]);
            for f in &cat {
                if f.desc.name == p[0] {
                    let dflt = Triple { nan: Some(b"NaN"), inf: Some(b"inf"), infinity: Some(b"infinity") };
                    let t = if numeric { &dflt } else { &ts[tid] };
                    let o = ParseFloatOptions::builder().nan_string(t.nan).inf_string(t.inf).infinity_string(t.infinity).build().unwrap();
                    let mut c = Ck { rep: &rep, fam: Fam::new(&rep, "replay") };
                    c.parse_case::<f64>(f, f.f64, t, tid, &o, &s, numeric);
                    c.parse_case::<f32>(f, f.f32, t, tid, &o, &s, numeric);
                    c.done();
                }
            }
        }
        finish(&rep, &cli);
    }
    let work: Vec<(usize, usize)> = (0..cat.len()).flat_map(|i| (0..ts.len()).map(move |j| (i, j))).collect();
    par_items(&work, cli.threads, |_, &(i, j)| {
        let f = &cat[i];
        let t = &ts[j];
        let o = match ParseFloatOptions::builder().nan_string(t.nan).inf_string(t.inf).infinity_string(t.infinity).build() {
            Ok(o) => o,
            Err(_) => return, // invalid triple (C18's business)
        };
        let mut c = Ck { rep: &rep, fam: Fam::new(&rep, &format!("C15:PARSE:{}", f.group)) };
        for s in near_inputs(&f.desc, t) {
            if c.fam.want_sample() {
                rep.sample(format!("{} [{}] nan={:?} inf={:?} infinity={:?} input {:?}", c.fam.name, f.desc.name, t.nan.map(show_bytes), t.inf.map(show_bytes), t.infinity.map(show_bytes), show_trunc(&s)));
            }
            c.parse_case::<f64>(f, f.f64, t, j, &o, &s, false);
            c.parse_case::<f32>(f, f.f32, t, j, &o, &s, false);
        }
        c.done();
    });
    // BYTESUB: every byte value at every position of the default special strings, every format
    par_items(&idx0(cat.len()), cli.threads, |_, &i| {
        let f = &cat[i];
        let t = &ts[0];
        let o = ParseFloatOptions::builder().nan_string(t.nan).inf_string(t.inf).infinity_string(t.infinity).build().unwrap();
        let mut c = Ck { rep: &rep, fam: Fam::new(&rep, "C15:BYTESUB") };
        for w in [t.nan, t.inf, t.infinity].iter().flatten() {
            for k in 0..w.len() {
                for b in 0..=255u8 {
                    for sign in [&b""[..], b"+", b"-"] {
                        let mut s = sign.to_vec();
                        s.extend_from_slice(w);
                        s[sign.len() + k] = b;
                        c.parse_case::<f64>(f, f.f64, t, 0, &o, &s, false);
                        c.parse_case::<f32>(f, f.f32, t, 0, &o, &s, false);
                    }
                }
            }
        }
        c.done();
    });
    // numeric inputs never give NaN; signs of zero preserved (default options, every format of the groups)
    let idx: Vec<usize> = (0..cat.len()).collect();
    let depth = if thorough { 7 } else { 6 };
    par_items(&idx, cli.threads, |_, &i| {
        let f = &cat[i];
        let t = Triple { nan: Some(b"NaN"), inf: Some(b"inf"), infinity: Some(b"infinity") };
        let o = ParseFloatOptions::new();
        let mut c = Ck { rep: &rep, fam: Fam::new(&rep, "C15:NUMERIC") };
        let alpha: [&[u8]; 8] = [b"+", b"-", b"0", b"1", b"9", b".", b"e", b"E"];
        gen::for_each_string(&alpha, depth, &mut |s: &[u8]| {
            c.parse_case::<f64>(f, f.f64, &t, 0, &o, s, true);
            c.parse_case::<f32>(f, f.f32, &t, 0, &o, s, true);
        });
        c.done();
    });
    write_side::<f64>(&rep);
    write_side::<f32>(&rep);
    rep.note(format!("formats={} triples={} numeric depth={}", cat.len(), ts.len(), depth));
    finish(&rep, &cli);
}
