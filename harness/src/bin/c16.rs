//! C16 — Cargo features are additive. This binary enumerates a fixed input list through the
//! default (decimal, STANDARD) API and emits one 64-bit hash per block of results; the driver
//! demands identical hashes across all build configurations (float output: across the
//! non-compact ones; compact float output must instead round-trip exactly, judged here).
//!   --dump <block name>   print every "input -> result" line of one block (for diffing)

use harness::common::*;
use harness::floatfam::*;
use harness::intglue::*;
use harness::valfam::*;
use std::sync::Mutex;
use vkit::big::PowTable;
use vkit::gen;
use vkit::intref::{numeral_mag, IVal};
use vkit::out::*;
use vkit::par::par_chunks;

const COMPACT: bool = cfg!(feature = "compact");

fn fnv(h: &mut u64, bytes: &[u8]) {
    for &b in bytes {
        *h ^= b as u64;
        *h = h.wrapping_mul(0x100000001b3);
    }
}

struct Sink {
    blocks: Mutex<Vec<(String, u64, u64)>>,
    dump: Option<String>,
    dumped: Mutex<Vec<String>>,
}

struct Blk<'a> {
    sink: &'a Sink,
    stream: String,
    name: Option<String>,
    h: u64,
    n: u64,
    lines: Vec<String>,
}

impl<'a> Blk<'a> {
    fn new(sink: &'a Sink, stream: &str) -> Self {
        Blk { sink, stream: stream.to_string(), name: None, h: 0xcbf29ce484222325, n: 0, lines: Vec::new() }
    }
    fn named(sink: &'a Sink, stream: &str, name: String) -> Self {
        let mut b = Blk::new(sink, stream);
        b.name = Some(format!("{}#{}", stream, name));
        b
    }
    fn push(&mut self, input: &[u8], result: &str) {
        if self.name.is_none() {
            self.name = Some(format!("{}#{}", self.stream, hex(&input[..input.len().min(24)])));
        }
        fnv(&mut self.h, input);
        fnv(&mut self.h, b"\x00");
        fnv(&mut self.h, result.as_bytes());
        fnv(&mut self.h, b"\x01");
        self.n += 1;
        if let Some(d) = &self.sink.dump {
            if self.name.as_deref() == Some(d.as_str()) {
                self.lines.push(format!("{} -> {}", show_trunc(input), result));
            }
        }
    }
    fn finish(self) {
        if let Some(name) = self.name {
            if !self.lines.is_empty() {
                self.sink.dumped.lock().unwrap().extend(self.lines);
            }
            self.sink.blocks.lock().unwrap().push((name, self.h, self.n));
        }
    }
}

fn res_f<T: Flt>(r: Result<Result<T, lexical_core::Error>, String>) -> String {
    match r {
        Ok(Ok(v)) => format!("Ok({:#x})", v.to_bits64()),
        Ok(Err(e)) => format!("Err({:?})", e),
        Err(_) => "panic".into(),
    }
}
fn res_fp<T: Flt>(r: Result<Result<(T, usize), lexical_core::Error>, String>) -> String {
    match r {
        Ok(Ok((v, n))) => format!("Ok({:#x},{})", v.to_bits64(), n),
        Ok(Err(e)) => format!("Err({:?})", e),
        Err(_) => "panic".into(),
    }
}

struct FloatParse<'a, T: Flt> {
    rep: &'a Report,
    blk: Blk<'a>,
    fam: Fam<'a>,
    _t: std::marker::PhantomData<T>,
}

impl<'a, T: Flt> Checker for FloatParse<'a, T> {
    fn check(&mut self, s: &[u8]) {
        self.fam.states += 1;
        self.fam.cases += 1;
        self.fam.calls += 2;
        let a = res_f(guarded(|| lexical_core::parse::<T>(s)));
        let b = res_fp(guarded(|| lexical_core::parse_partial::<T>(s)));
        if a.starts_with("Ok") {
            self.fam.nontrivial += 1;
        }
        if self.fam.want_sample() {
            self.rep.sample(format!("{} {} -> {a};{b}", self.fam.name, show_trunc(s)));
        }
        self.blk.push(s, &format!("{a};{b}"));
    }
    fn done(self) {
        self.blk.finish();
        self.fam.finish();
    }
}

fn float_parse_streams<T: Flt>(rep: &Report, cli: &Cli, sink: &Sink) {
    let thorough = cli.tier == "thorough";
    let spell = Spell::decimal();
    let stream = format!("parse_{}", T::NAME);
    let mk = |fam: &'static str| {
        let stream = format!("{stream}:{fam}");
        move || FloatParse::<T> { rep, blk: Blk::new(sink, &stream), fam: Fam::new(rep, &stream), _t: std::marker::PhantomData }
    };
    let (qlo, qhi) = spell.exp_range(T::FMT, 8);
    let alpha: [&[u8]; 12] = [b"+", b"-", b"0", b"1", b"5", b"9", b".", b"e", b"E", b"x", b"n", b"i"];
    fam_s(&alpha, if thorough { 7 } else { 5 }, cli.threads, rep, &mk("S"));
    fam_me(&spell, if thorough { 4 } else { 3 }, qlo - 4, qhi, cli.threads, &mk("ME"));
    fam_me_variants(&spell, 1, qlo, qhi, cli.threads, &mk("MEV"));
    fam_cf(&spell, T::FMT, if thorough { 8 } else { 3 }, qlo - 19, qhi, cli.threads, &mk("CF"));
    fam_hw(&spell, T::FMT, 0, if thorough { 1 } else { 2 }, cli.threads, &mk("HW"));
    fam_bd(&spell, T::FMT, &mk("BD"));
    // special strings and neighbours
    let mut c = mk("SPECIAL")();
    for s in ["nan", "NaN", "NAN", "inf", "Inf", "INF", "infinity", "Infinity", "-inf", "+inf", "-nan", "+NaN", "in", "infi", "infinit", "infinityx", "nanx", "na", "-", "+", "", ".", "e", "e5", ".e5", "1e", "1e+", "1e-", "1.e5", "+.5", "-.5e-5", "1_000", "0x10", "١"] {
        c.check(s.as_bytes());
    }
    c.done();
}

fn int_parse_stream<T: Int>(rep: &Report, cli: &Cli, sink: &Sink) {
    let thorough = cli.tier == "thorough";
    let stream = format!("parse_{}", T::NAME);
    // S family over the integer alphabet, partitioned by first token
    let alpha: Vec<&[u8]> = vec![b"+", b"-", b"0", b"1", b"9", b"a", b"_", b".", b"\xff"];
    let depth = if thorough { 7 } else { 5 };
    let prefixes: Vec<Vec<u8>> = std::iter::once(Vec::new()).chain(alpha.iter().map(|a| a.to_vec())).collect();
    vkit::par::par_items(&prefixes, cli.threads, |_, p| {
        let mut blk = Blk::named(sink, &stream, format!("S:{}", hex(p)));
        let mut fam = Fam::new(rep, &format!("{stream}:S"));
        let mut f = |s: &[u8]| {
            let a = match guarded(|| lexical_core::parse::<T>(s)) {
                Ok(Ok(v)) => format!("Ok({})", v.to_ival().show()),
                Ok(Err(e)) => format!("Err({:?})", e),
                Err(_) => "panic".into(),
            };
            let b = match guarded(|| lexical_core::parse_partial::<T>(s)) {
                Ok(Ok((v, n))) => format!("Ok({},{})", v.to_ival().show(), n),
                Ok(Err(e)) => format!("Err({:?})", e),
                Err(_) => "panic".into(),
            };
            fam.states += 1;
            fam.cases += 1;
            fam.calls += 2;
            if a.starts_with("Ok") {
                fam.nontrivial += 1;
            }
            blk.push(s, &format!("{a};{b}"));
        };
        if p.is_empty() {
            f(b"");
        } else {
            gen::for_each_string_under(&alpha, p, depth - 1, &mut f);
        }
        blk.finish();
        fam.finish();
    });
    // boundary numerals
    let mut blk = Blk::named(sink, &stream, "NUM".into());
    let mut fam = Fam::new(rep, &format!("{stream}:NUM"));
    for neg in [false, true] {
        if neg && !T::TY.signed {
            continue;
        }
        let max = T::TY.max_mag(neg);
        let mags = if T::TY.bits <= 16 { (0..=max).step_by(if thorough { 1 } else { 7 }).chain([max]).collect::<Vec<_>>() } else { gen::int_magnitudes(max, 10, 2) };
        for m in mags {
            for extra in [&b""[..], b"0", b"9", b"x", b" "] {
                let mut s = if neg { b"-".to_vec() } else { Vec::new() };
                s.extend(numeral_mag(m, 10));
                s.extend_from_slice(extra);
                let a = match guarded(|| lexical_core::parse::<T>(&s)) {
                    Ok(Ok(v)) => format!("Ok({})", v.to_ival().show()),
                    Ok(Err(e)) => format!("Err({:?})", e),
                    Err(_) => "panic".into(),
                };
                let b = match guarded(|| lexical_core::parse_partial::<T>(&s)) {
                    Ok(Ok((v, n))) => format!("Ok({},{})", v.to_ival().show(), n),
                    Ok(Err(e)) => format!("Err({:?})", e),
                    Err(_) => "panic".into(),
                };
                fam.states += 1;
                fam.cases += 1;
                fam.calls += 2;
                fam.nontrivial += 1;
                blk.push(&s, &format!("{a};{b}"));
            }
        }
    }
    blk.finish();
    fam.finish();
}

fn int_write_stream<T: Int>(rep: &Report, cli: &Cli, sink: &Sink) {
    let _ = cli;
    let stream = format!("write_{}", T::NAME);
    let mut blk = Blk::named(sink, &stream, "INT".into());
    let mut fam = Fam::new(rep, &format!("{stream}:INT"));
    let mut buf = [0u8; 64];
    for neg in [false, true] {
        if neg && !T::TY.signed {
            continue;
        }
        let max = T::TY.max_mag(neg);
        let mags = if T::TY.bits <= 16 { (0..=max).collect::<Vec<_>>() } else { gen::int_magnitudes(max, 10, 3) };
        for m in mags {
            if neg && m == 0 {
                continue;
            }
            let v = T::from_ival(IVal { neg, mag: m }).unwrap();
            let out = match guarded(|| lexical_core::write(v, &mut buf[..]).to_vec()) {
                Ok(o) => show_bytes(&o),
                Err(_) => "panic".into(),
            };
            fam.states += 1;
            fam.cases += 1;
            fam.calls += 1;
            fam.nontrivial += 1;
            if fam.want_sample() {
                rep.sample(format!("{} {} -> {}", fam.name, IVal { neg, mag: m }.show(), out));
            }
            blk.push(IVal { neg, mag: m }.show().as_bytes(), &out);
        }
    }
    blk.finish();
    fam.finish();
}

fn float_write_stream<T: Flt>(rep: &Report, cli: &Cli, sink: &Sink) {
    let thorough = cli.tier == "thorough";
    let f = T::FMT;
    let mut vals = bd_values(f);
    vals.extend(bin_values(f, if thorough { 2 } else { 1 }));
    let (qlo, qhi) = if f.mant_bits == 52 { (-330, 310) } else { (-50, 40) };
    vals.extend(sd_values::<T>(if thorough { 3 } else { 2 }, qlo, qhi));
    vals.sort_unstable();
    vals.dedup();
    // compact builds are compared by value (exact round trip), others byte for byte
    let stream = if COMPACT { format!("writec_{}", T::NAME) } else { format!("write_{}", T::NAME) };
    let nblocks = 64u64;
    let per = (vals.len() as u64 + nblocks - 1) / nblocks;
    par_chunks(nblocks, 1, cli.threads, |_, r| {
        for b in r {
            let mut blk = Blk::named(sink, &stream, format!("VAL{b}"));
            let mut fam = Fam::new(rep, &format!("{stream}:VAL"));
            let mut buf = [0u8; 256];
            let mut pt = PowTable::new(10);
            let g = vkit::simple::Grammar::decimal();
            let lo = (b * per) as usize;
            let hi = ((b + 1) * per).min(vals.len() as u64) as usize;
            for &bits in &vals[lo.min(hi)..hi] {
                for sign in [0u64, f.sign_mask()] {
                    let v = T::from_bits64(bits | sign);
                    let out = match guarded(|| lexical_core::write(v, &mut buf[..]).to_vec()) {
                        Ok(o) => o,
                        Err(_) => b"panic".to_vec(),
                    };
                    fam.states += 1;
                    fam.cases += 1;
                    fam.calls += 1;
                    fam.nontrivial += 1;
                    if COMPACT {
                        // must denote a value that rounds to the same float
                        let ok = match vkit::simple::parse_full(&g, &out) {
                            Some(x) => {
                                let q = x.exp as i64 - x.frac_len as i64;
                                x.neg == (sign != 0) && vkit::shortest::judge(f, bits, &x.digits, q, &mut pt).roundtrip
                            }
                            None => false,
                        };
                        if !ok {
                            rep.violation(format!("{}|writec|{:#x}", T::NAME, bits | sign), format!("C16 compact output {:?} of {:#x} does not parse back to the same value", show_bytes(&out), bits | sign));
                        }
                        blk.push(format!("{:#x}", bits | sign).as_bytes(), "roundtrip-checked");
                    } else {
                        if fam.want_sample() {
                            rep.sample(format!("{} {:#x} -> {}", fam.name, bits | sign, show_bytes(&out)));
                        }
                        blk.push(format!("{:#x}", bits | sign).as_bytes(), &show_bytes(&out));
                    }
                }
            }
            blk.finish();
            fam.finish();
        }
    });
}

fn main() {
    let cli = parse_cli();
    silence_panics();
    let rep = Report::new("C16", config_name(), &cli.tier);
    if let Err(e) = vkit::self_check_all() {
        rep.machinery_error(format!("self-check: {e}"));
        finish(&rep, &cli);
    }
    let dump = cli.extra.iter().position(|a| a == "--dump").map(|i| cli.extra[i + 1].clone());
    let sink = Sink { blocks: Mutex::new(Vec::new()), dump: dump.clone(), dumped: Mutex::new(Vec::new()) };
    float_parse_streams::<f64>(&rep, &cli, &sink);
    float_parse_streams::<f32>(&rep, &cli, &sink);
    harness::for_each_int_type!(int_parse_stream, &rep, &cli, &sink);
    harness::for_each_int_type!(int_write_stream, &rep, &cli, &sink);
    float_write_stream::<f64>(&rep, &cli, &sink);
    float_write_stream::<f32>(&rep, &cli, &sink);
    if dump.is_some() {
        for l in sink.dumped.lock().unwrap().iter() {
            println!("{l}");
        }
        std::process::exit(0);
    }
    let mut blocks = sink.blocks.lock().unwrap().clone();
    blocks.sort();
    // blocks travel in the notes as "HASH name hash count"
    for (name, h, n) in blocks {
        rep.note(format!("HASH {} {:016x} {}", name, h, n));
    }
    finish(&rep, &cli);
}
