//! C17 — the allocating `lexical` API equals `lexical-core`, and every emitted byte is ASCII.

use harness::common::*;
use harness::fmtcat::*;
use harness::intglue::*;
use harness::optfam::*;
use lexical_core::{ParseFloatOptions, WriteFloatOptions, WriteIntegerOptions};
use vkit::gen;
use vkit::intref::IVal;
use vkit::out::*;
use vkit::par::par_items;

/// facade entry points for one FORMAT
struct Fac<T> {
    name: &'static str,
    to_string: fn(T, &WriteFloatOptions) -> String,
    parse: fn(&[u8], &ParseFloatOptions) -> Result<T, lexical::Error>,
    parse_partial: fn(&[u8], &ParseFloatOptions) -> Result<(T, usize), lexical::Error>,
    core: FloatFmt<T>,
}

macro_rules! fac {
    ($t:ty, $name:expr, $f:expr) => {{
        const FF: u128 = $f;
        fn ts<T: Flt>(v: T, o: &WriteFloatOptions) -> String {
            lexical::to_string_with_options::<T, FF>(v, o)
        }
        fn p<T: Flt>(b: &[u8], o: &ParseFloatOptions) -> Result<T, lexical::Error> {
            lexical::parse_with_options::<T, _, FF>(b, o)
        }
        fn pp<T: Flt>(b: &[u8], o: &ParseFloatOptions) -> Result<(T, usize), lexical::Error> {
            lexical::parse_partial_with_options::<T, _, FF>(b, o)
        }
        Fac::<$t> { name: $name, to_string: ts::<$t>, parse: p::<$t>, parse_partial: pp::<$t>, core: harness::float_fmt!($t, $name, FF) }
    }};
}

fn facs<T: Flt>() -> Vec<Fac<T>> {
    #[allow(unused_mut)]
    let mut v = vec![fac!(T, "STANDARD", lexical_core::format::STANDARD)];
    #[cfg(feature = "power-of-two")]
    {
        v.push(fac!(T, "radix2", lexical_core::NumberFormatBuilder::from_radix(2)));
        v.push(fac!(T, "radix16", lexical_core::NumberFormatBuilder::from_radix(16)));
    }
    #[cfg(feature = "radix")]
    {
        v.push(fac!(T, "radix36", lexical_core::NumberFormatBuilder::from_radix(36)));
        v.push(fac!(T, "radix3", lexical_core::NumberFormatBuilder::from_radix(3)));
    }
    #[cfg(feature = "format")]
    {
        use lexical_core::NumberFormatBuilder as B;
        v.push(fac!(T, "w_required_signs_expnot", B::new().required_mantissa_sign(true).required_exponent_sign(true).required_exponent_notation(true).build_strict()));
        v.push(fac!(T, "w_no_exponent_notation", B::new().no_exponent_notation(true).build_strict()));
    }
    v
}

fn values<T: Flt>(thorough: bool) -> Vec<u64> {
    let f = T::FMT;
    let mut v = harness::valfam::bd_values(f);
    if thorough {
        v.extend(harness::valfam::bin_values(f, 0));
    }
    let step = if thorough { 3 } else { 41 };
    let mut out: Vec<u64> = v.iter().step_by(step).copied().collect();
    out.extend([0, f.sign_mask(), f.inf_bits(), f.inf_bits() | f.sign_mask(), f.inf_bits() | 1, 1, f.max_finite_bits()]);
    for s in ["0.1", "1", "123456.789", "1e21", "1e-7", "9.999999999999999e22", "5e-324"] {
        if let Some(b) = T::std_parse(s) {
            out.push(b);
            out.push(b | f.sign_mask());
        }
    }
    out.extend(harness::valfam::break_values::<T>());
    out.sort_unstable();
    out.dedup();
    out
}

fn run_floats<T: Flt>(rep: &Report, cli: &Cli) {
    let thorough = cli.tier == "thorough";
    let vals = values::<T>(thorough);
    for fc in facs::<T>() {
        let ec = fc.core.exp_char();
        // option sets: OPT_w (reduced) + punctuation pairs + long special strings
        let mut opts: Vec<(String, WriteFloatOptions)> = Vec::new();
        for wo in wopts(0, ec) {
            if let Some(o) = wo.build() {
                opts.push((wo.show(), o));
            }
        }
        let long_nan: &'static [u8] = Box::leak(std::iter::once(b'N').chain(std::iter::repeat(b'a').take(49)).collect::<Vec<u8>>().into_boxed_slice());
        let long_inf: &'static [u8] = Box::leak(std::iter::once(b'I').chain(std::iter::repeat(b'n').take(49)).collect::<Vec<u8>>().into_boxed_slice());
        if let Ok(o) = WriteFloatOptions::builder().exponent(ec).nan_string(Some(long_nan)).inf_string(Some(long_inf)).build() {
            opts.push(("long specials".into(), o));
        }
        // every pair of valid punctuation bytes (printable ASCII, not a digit of the radix, not a sign)
        let big = fc.core.radix.max(fc.core.exp_radix);
        let valid: Vec<u8> = (0u8..=127).filter(|&c| ((0x09..=0x0d).contains(&c) || (0x20..0x7f).contains(&c)) && c != b'+' && c != b'-' && !matches!(vkit::big::digit_value(c), Some(d) if d < big)).collect();
        let pair_step = if thorough { 1 } else { 7 };
        let mut k = 0usize;
        for &p in &valid {
            for &e in &valid {
                if p == e {
                    continue;
                }
                k += 1;
                if k % pair_step != 0 {
                    continue;
                }
                if let Ok(o) = WriteFloatOptions::builder().decimal_point(p).exponent(e).build() {
                    opts.push((format!("point={:?} exponent={:?}", p as char, e as char), o));
                }
            }
        }
        let idx: Vec<usize> = (0..opts.len()).collect();
        par_items(&idx, cli.threads, |_, &i| {
            let (oname, o) = &opts[i];
            let mut fam = Fam::new(rep, &format!("C17:{}:{}", T::NAME, fc.name));
            // the core writer gets room to spare: whether the documented size suffices is exactly
            // what the facade (which allocates that size itself) is being checked for
            let size = (fc.core.bufsize)(o) + 64;
            let mut buf = vec![0u8; size];
            let is_punct = oname.starts_with("point=");
            let vs: Vec<u64> = if is_punct { vals.iter().step_by((vals.len() / 8).max(1)).copied().collect() } else { vals.clone() };
            for &bits in &vs {
                let v = T::from_bits64(bits);
                fam.states += 1;
                fam.cases += 1;
                fam.calls += 2;
                fam.nontrivial += 1;
                let key = format!("{}|{}|{}|{:#x}", T::NAME, fc.name, i, bits);
                let (w, ts) = (fc.core.write, fc.to_string);
                let a = guarded(|| {
                    let n = w(v, &mut buf[..], o);
                    buf[..n].to_vec()
                });
                let b = guarded(|| ts(v, o).into_bytes());
                match (&a, &b) {
                    (Ok(x), Ok(y)) => {
                        if x != y {
                            rep.violation(key.clone(), format!("C17 [{}] {} : to_string_with_options = {:?} but write_with_options = {:?} for {:#x}", fc.name, oname, show_bytes(y), show_bytes(x), bits));
                        }
                        if x.iter().any(|&c| c >= 0x80) {
                            rep.violation(key.clone(), format!("C17 [{}] {} : non-ASCII byte in output {:?} of {:#x}", fc.name, oname, show_bytes(x), bits));
                        }
                    }
                    (Err(_), Err(_)) => fam.bump("both_panic"),
                    _ => {
                        rep.violation(key.clone(), format!("C17 [{}] {} : core {:?} vs facade {:?} for {:#x}", fc.name, oname, a.as_ref().map(|x| show_bytes(x)), b.as_ref().map(|x| show_bytes(x)), bits));
                    }
                }
                if fam.want_sample() {
                    rep.sample(format!("{} {} {:#x} -> {:?}", fam.name, oname, bits, a.as_ref().map(|x| show_bytes(x))));
                }
            }
            fam.finish();
        });
        // parse side: facade == core on outputs and on a token space
        let mut fam = Fam::new(rep, &format!("C17:{}:{}:parse", T::NAME, fc.name));
        let po = ParseFloatOptions::builder().exponent(ec).build_unchecked();
        let alpha: Vec<Vec<u8>> = vec![b"+".to_vec(), b"-".to_vec(), b"0".to_vec(), b"1".to_vec(), b".".to_vec(), vec![ec], b"x".to_vec(), b"nan".to_vec(), b"inf".to_vec()];
        let aref: Vec<&[u8]> = alpha.iter().map(|v| &v[..]).collect();
        gen::for_each_string(&aref, if thorough { 5 } else { 4 }, &mut |s: &[u8]| {
            fam.states += 1;
            fam.cases += 1;
            fam.calls += 4;
            let a = (fc.core.parse)(s, &po).map(|v| v.to_bits64());
            let b = (fc.parse)(s, &po).map(|v| v.to_bits64());
            let pa = (fc.core.parse_partial)(s, &po).map(|(v, n)| (v.to_bits64(), n));
            let pb = (fc.parse_partial)(s, &po).map(|(v, n)| (v.to_bits64(), n));
            let same = |x: &Result<u64, lexical_core::Error>, y: &Result<u64, lexical::Error>| match (x, y) {
                (Ok(p), Ok(q)) => p == q || (T::FMT.is_nan(*p) && T::FMT.is_nan(*q)),
                (Err(p), Err(q)) => p == q,
                _ => false,
            };
            let samep = match (&pa, &pb) {
                (Ok((p, n)), Ok((q, m))) => n == m && (p == q || (T::FMT.is_nan(*p) && T::FMT.is_nan(*q))),
                (Err(p), Err(q)) => p == q,
                _ => false,
            };
            if a.is_ok() {
                fam.nontrivial += 1;
            }
            if !same(&a, &b) || !samep {
                rep.violation(format!("{}|{}|parse|{}", T::NAME, fc.name, hex(s)), format!("C17 [{}] parse {:?}: core {:?}/{:?} vs facade {:?}/{:?}", fc.name, show_bytes(s), a, pa, b, pb));
            }
        });
        fam.finish();
    }
}

/// OPTB: every byte value in every byte-valued field of the write-float options (decimal point,
/// exponent character, each position of 1..3-byte NaN / infinity strings). Whatever `build()`
/// accepts is a valid option set: writing NaN, +-infinity and finite values with it must emit
/// only 7-bit ASCII and the facade must return the same bytes.
fn run_option_bytes<T: Flt>(rep: &Report) {
    let mut fam = Fam::new(rep, &format!("C17:{}:OPTB", T::NAME));
    let f = T::FMT;
    let fc = &facs::<T>()[0];
    let vals = [f.inf_bits() | 1, f.inf_bits(), f.inf_bits() | f.sign_mask(), T::std_parse("1.5e300").or(T::std_parse("1.5e30")).unwrap(), T::std_parse("0.25").unwrap()];
    let mut cands: Vec<(String, Result<WriteFloatOptions, lexical::Error>)> = Vec::new();
    for b in 0..=255u8 {
        cands.push((format!("decimal_point={:#04x}", b), WriteFloatOptions::builder().decimal_point(b).build()));
        cands.push((format!("exponent={:#04x}", b), WriteFloatOptions::builder().exponent(b).build()));
        for (base_n, base_i) in [(&b"N"[..], &b"I"[..]), (b"Na", b"In"), (b"NaN", b"Inf")] {
            for pos in 0..base_n.len() {
                let mut n = base_n.to_vec();
                n[pos] = b;
                let mut i = base_i.to_vec();
                i[pos] = b;
                let n: &'static [u8] = Box::leak(n.into_boxed_slice());
                let i: &'static [u8] = Box::leak(i.into_boxed_slice());
                cands.push((format!("nan_string={:?}", show_bytes(n)), WriteFloatOptions::builder().nan_string(Some(n)).build()));
                cands.push((format!("inf_string={:?}", show_bytes(i)), WriteFloatOptions::builder().inf_string(Some(i)).build()));
            }
        }
    }
    for (oname, r) in cands {
        fam.states += 1;
        fam.cases += 1;
        let o = match r {
            Ok(o) => o,
            Err(_) => {
                fam.bump("rejected_by_build");
                continue;
            }
        };
        fam.nontrivial += 1;
        let size = (fc.core.bufsize)(&o);
        let mut buf = vec![0u8; size];
        for &bits in &vals {
            let v = T::from_bits64(bits);
            fam.calls += 2;
            let key = format!("{}|optb|{}|{:#x}", T::NAME, oname, bits);
            let (w, ts) = (fc.core.write, fc.to_string);
            let a = guarded(|| {
                let n = w(v, &mut buf[..], &o);
                buf[..n].to_vec()
            });
            let b = guarded(|| ts(v, &o).into_bytes());
            match (&a, &b) {
                (Ok(x), Ok(y)) => {
                    if x != y {
                        rep.violation(key.clone(), format!("C17 [{}] to_string_with_options = {:?} but write_with_options = {:?} for {:#x}", oname, show_bytes(y), show_bytes(x), bits));
                    }
                    if x.iter().any(|&c| c >= 0x80) {
                        rep.violation(key.clone(), format!("C17 options with {} pass build() but the output {:?} of {:#x} has a non-ASCII byte", oname, show_bytes(x), bits));
                    }
                }
                (Err(_), Err(_)) => fam.bump("both_panic"),
                _ => rep.violation(key.clone(), format!("C17 [{}] core {:?} vs facade {:?} for {:#x}", oname, a.as_ref().map(|x| show_bytes(x)), b.as_ref().map(|x| show_bytes(x)), bits)),
            }
        }
        if fam.want_sample() {
            rep.sample(format!("{} {} accepted by build()", fam.name, oname));
        }
    }
    fam.finish();
}

fn run_default<T: Flt>(rep: &Report, cli: &Cli) {
    let mut fam = Fam::new(rep, &format!("C17:{}:default", T::NAME));
    let mut buf = [0u8; 256];
    for bits in values::<T>(cli.tier == "thorough") {
        let v = T::from_bits64(bits);
        fam.states += 1;
        fam.cases += 1;
        fam.calls += 2;
        fam.nontrivial += 1;
        let a = lexical_core::write(v, &mut buf).to_vec();
        let b = match guarded(|| lexical::to_string(v).into_bytes()) {
            Ok(b) => b,
            Err(p) => {
                rep.violation(format!("{}|default|{:#x}", T::NAME, bits), format!("C17 to_string({:#x}) panicked ({}) but write = {:?}", bits, p, show_bytes(&a)));
                continue;
            }
        };
        if a != b || a.iter().any(|&c| c >= 0x80) {
            rep.violation(format!("{}|default|{:#x}", T::NAME, bits), format!("C17 to_string({:#x}) = {:?} but write = {:?}", bits, show_bytes(&b), show_bytes(&a)));
        }
        let pa = lexical_core::parse::<T>(&a).map(|x| x.to_bits64());
        let pb = lexical::parse::<T, _>(&a).map(|x| x.to_bits64());
        let qa = lexical_core::parse_partial::<T>(&a).map(|(x, n)| (x.to_bits64(), n));
        let qb = lexical::parse_partial::<T, _>(&a).map(|(x, n)| (x.to_bits64(), n));
        let nan_eq = |p: &u64, q: &u64| p == q || (T::FMT.is_nan(*p) && T::FMT.is_nan(*q));
        let ok1 = match (&pa, &pb) {
            (Ok(p), Ok(q)) => nan_eq(p, q),
            (Err(p), Err(q)) => p == q,
            _ => false,
        };
        let ok2 = match (&qa, &qb) {
            (Ok((p, n)), Ok((q, m))) => n == m && nan_eq(p, q),
            (Err(p), Err(q)) => p == q,
            _ => false,
        };
        if !ok1 || !ok2 {
            rep.violation(format!("{}|default-parse|{:#x}", T::NAME, bits), format!("C17 parse({:?}): core {:?}/{:?} facade {:?}/{:?}", show_bytes(&a), pa, qa, pb, qb));
        }
    }
    fam.finish();
}

fn run_ints<T: Int>(rep: &Report, _cli: &Cli)
where
    T: lexical::ToLexical + lexical::FromLexical + PartialEq + std::fmt::Debug,
{
    let mut fam = Fam::new(rep, &format!("C17:{}:int", T::NAME));
    let mut buf = [0u8; 256];
    let o = WriteIntegerOptions::new();
    let _ = &o;
    let mut vals: Vec<IVal> = Vec::new();
    for m in gen::int_magnitudes(T::TY.max_mag(false), 10, 2) {
        vals.push(IVal { neg: false, mag: m });
    }
    if T::TY.signed {
        for m in gen::int_magnitudes(T::TY.max_mag(true), 10, 2) {
            if m != 0 {
                vals.push(IVal { neg: true, mag: m });
            }
        }
    }
    for iv in vals {
        let v = T::from_ival(iv).unwrap();
        fam.states += 1;
        fam.cases += 1;
        fam.calls += 4;
        fam.nontrivial += 1;
        let a = lexical_core::write(v, &mut buf).to_vec();
        let b = match guarded(|| lexical::to_string(v).into_bytes()) {
            Ok(b) => b,
            Err(p) => {
                rep.violation(format!("{}|int|{}", T::NAME, iv.show()), format!("C17 to_string({}) panicked ({}) but write = {:?}", iv.show(), p, show_bytes(&a)));
                continue;
            }
        };
        if a != b || a.iter().any(|&c| c >= 0x80) {
            rep.violation(format!("{}|int|{}", T::NAME, iv.show()), format!("C17 to_string({}) = {:?} but write = {:?}", iv.show(), show_bytes(&b), show_bytes(&a)));
        }
        let pa = lexical_core::parse::<T>(&a);
        let pb = lexical::parse::<T, _>(&a);
        let mut a2 = a.clone();
        a2.push(b'x');
        let qa = lexical_core::parse_partial::<T>(&a2);
        let qb = lexical::parse_partial::<T, _>(&a2);
        if pa != pb || qa != qb {
            rep.violation(format!("{}|int-parse|{}", T::NAME, iv.show()), format!("C17 parse({:?}): core {:?}/{:?} facade {:?}/{:?}", show_bytes(&a), pa, qa, pb, qb));
        }
    }
    if fam.want_sample() {
        rep.sample(format!("{} boundary and sparse values, to_string vs write, parse vs parse", fam.name));
    }
    fam.finish();
}

/// facade vs core for integers under custom formats: (name, radix, sign required, core write into a
/// buffer of exactly `buffer_size_const` bytes, facade to_string_with_options, that size)
struct IntFac<T> {
    name: &'static str,
    radix: u32,
    plus: bool,
    write: fn(T, &mut [u8]) -> usize,
    to_string: fn(T) -> String,
    size: usize,
}

macro_rules! int_fac {
    ($t:ty, $name:expr, $radix:expr, $plus:expr, $f:expr) => {{
        const FF: u128 = $f;
        fn w<T: Int>(v: T, b: &mut [u8]) -> usize {
            lexical_core::write_with_options::<T, FF>(v, b, &harness::intglue::WOPTS).len()
        }
        fn ts<T: Int + lexical::ToLexicalWithOptions<Options = WriteIntegerOptions>>(v: T) -> String {
            lexical::to_string_with_options::<T, FF>(v, &harness::intglue::WOPTS)
        }
        IntFac::<$t> { name: $name, radix: $radix, plus: $plus, write: w::<$t>, to_string: ts::<$t>, size: harness::intglue::WOPTS.buffer_size_const::<$t, FF>() }
    }};
}

fn int_facs<T: Int + lexical::ToLexicalWithOptions<Options = WriteIntegerOptions>>() -> Vec<IntFac<T>> {
    #[allow(unused_mut)]
    let mut v = vec![int_fac!(T, "STANDARD", 10, false, lexical_core::format::STANDARD)];
    #[cfg(feature = "power-of-two")]
    {
        v.push(int_fac!(T, "radix2", 2, false, lexical_core::NumberFormatBuilder::from_radix(2)));
        v.push(int_fac!(T, "radix16", 16, false, lexical_core::NumberFormatBuilder::from_radix(16)));
        v.push(int_fac!(T, "radix32", 32, false, lexical_core::NumberFormatBuilder::from_radix(32)));
    }
    #[cfg(feature = "radix")]
    {
        v.push(int_fac!(T, "radix3", 3, false, lexical_core::NumberFormatBuilder::from_radix(3)));
        v.push(int_fac!(T, "radix36", 36, false, lexical_core::NumberFormatBuilder::from_radix(36)));
    }
    #[cfg(feature = "format")]
    {
        use lexical_core::NumberFormatBuilder as B;
        v.push(int_fac!(T, "required_mantissa_sign", 10, true, B::new().required_mantissa_sign(true).build_strict()));
    }
    #[cfg(all(feature = "format", feature = "power-of-two"))]
    {
        use lexical_core::NumberFormatBuilder as B;
        v.push(int_fac!(T, "radix2_required_mantissa_sign", 2, true, B::new().radix(2).required_mantissa_sign(true).build_strict()));
    }
    v
}

/// INTOPT: to_string_with_options vs write_with_options (buffer of exactly the documented size)
/// vs the reference numeral, for the boundary values of every type in every facade format.
fn run_ints_opts<T: Int>(rep: &Report, _cli: &Cli)
where
    T: lexical::ToLexicalWithOptions<Options = WriteIntegerOptions>,
{
    for fc in int_facs::<T>() {
        let mut fam = Fam::new(rep, &format!("C17:{}:INTOPT:{}", T::NAME, fc.name));
        let mut vals: Vec<IVal> = Vec::new();
        for m in gen::int_magnitudes(T::TY.max_mag(false), fc.radix, 2) {
            vals.push(IVal { neg: false, mag: m });
        }
        if T::TY.signed {
            for m in gen::int_magnitudes(T::TY.max_mag(true), fc.radix, 2) {
                if m != 0 {
                    vals.push(IVal { neg: true, mag: m });
                }
            }
        }
        let mut buf = vec![0u8; fc.size];
        for iv in vals {
            let v = T::from_ival(iv).unwrap();
            fam.states += 1;
            fam.cases += 1;
            fam.calls += 2;
            fam.nontrivial += 1;
            let mut expect: Vec<u8> = Vec::new();
            if iv.neg {
                expect.push(b'-');
            } else if fc.plus {
                expect.push(b'+');
            }
            expect.extend_from_slice(&vkit::big::Big::from_u128(iv.mag).to_digits(fc.radix));
            let key = format!("{}|intopt|{}|{}", T::NAME, fc.name, iv.show());
            let (w, ts) = (fc.write, fc.to_string);
            let a = guarded(|| {
                let n = w(v, &mut buf[..]);
                buf[..n].to_vec()
            });
            let b = guarded(|| ts(v).into_bytes());
            match (&a, &b) {
                (Ok(x), Ok(y)) if x == y && *x == expect => {}
                _ => rep.violation(
                    key,
                    format!(
                        "C17 [{} {}] {}: write_with_options into the documented {} bytes = {:?}, to_string_with_options = {:?}, reference {:?}",
                        T::NAME,
                        fc.name,
                        iv.show(),
                        fc.size,
                        a.as_ref().map(|x| show_bytes(x)),
                        b.as_ref().map(|x| show_bytes(x)),
                        show_bytes(&expect)
                    ),
                ),
            }
        }
        if fam.want_sample() {
            rep.sample(format!("{} boundary values, facade vs core vs reference numeral (buffer {} bytes)", fam.name, fc.size));
        }
        fam.finish();
    }
}

fn main() {
    let cli = parse_cli();
    silence_panics();
    let rep = Report::new("C17", config_name(), &cli.tier);
    run_default::<f64>(&rep, &cli);
    run_default::<f32>(&rep, &cli);
    run_option_bytes::<f64>(&rep);
    run_option_bytes::<f32>(&rep);
    run_floats::<f64>(&rep, &cli);
    run_floats::<f32>(&rep, &cli);
    harness::for_each_int_type!(run_ints, &rep, &cli);
    harness::for_each_int_type!(run_ints_opts, &rep, &cli);
    finish(&rep, &cli);
}
