//! C18 — format and options validation is sound and complete.
//! Run-time enumeration of the builder (it is an ordinary const fn): build_strict panics exactly
//! for the formats the reference validity predicate rejects; rebuild round-trips; getters reflect
//! setters. Compile-time part: catalogued invalid formats and invalid punctuation options must
//! give a configuration error from all four parse entry points.

use core::num::NonZeroU8;
use harness::cat::*;
use harness::common::*;
use lexical_core::{NumberFormatBuilder, ParseFloatOptions, ParseIntegerOptions, WriteFloatOptions};
use vkit::out::*;
use vkit::par::par_chunks;

const HAS_FORMAT: bool = cfg!(feature = "format");
const HAS_P2: bool = cfg!(feature = "power-of-two");
const HAS_RADIX: bool = cfg!(feature = "radix");

const SYNTAX: [&str; 18] = [
    "required_integer_digits", "required_fraction_digits", "required_exponent_digits", "required_mantissa_digits",
    "no_positive_mantissa_sign", "required_mantissa_sign", "no_exponent_notation", "no_positive_exponent_sign",
    "required_exponent_sign", "no_exponent_without_fraction", "no_special", "case_sensitive_special",
    "no_integer_leading_zeros", "no_float_leading_zeros", "required_exponent_notation", "case_sensitive_exponent",
    "case_sensitive_base_prefix", "case_sensitive_base_suffix",
];

#[derive(Clone, Debug, PartialEq)]
struct Cfg {
    syn: u32,     // 18 syntax flags in SYNTAX order
    sepf: u32,    // 12 separator flags: kind*3 + component (kind: internal, leading, trailing, consecutive), bit 12 = special
    sep: u8,
    prefix: u8,
    suffix: u8,
    mradix: u8,
    ebase: u8,   // 0 = None
    eradix: u8,  // 0 = None
}

impl Cfg {
    fn standard() -> Cfg {
        Cfg { syn: 0b1100, sepf: 0, sep: 0, prefix: 0, suffix: 0, mradix: 10, ebase: 0, eradix: 0 }
    }
    #[cfg(not(all(feature = "format", feature = "power-of-two")))]
    fn builder(&self) -> NumberFormatBuilder {
        // without `format` + `power-of-two` the builder has no setters: only the default exists
        NumberFormatBuilder::new()
    }
    #[cfg(all(feature = "format", feature = "power-of-two"))]
    fn builder(&self) -> NumberFormatBuilder {
        let s = |i: usize| self.syn >> i & 1 == 1;
        let f = |i: usize| self.sepf >> i & 1 == 1;
        NumberFormatBuilder::new()
            .digit_separator(NonZeroU8::new(self.sep))
            .base_prefix(NonZeroU8::new(self.prefix))
            .base_suffix(NonZeroU8::new(self.suffix))
            .mantissa_radix(self.mradix)
            .exponent_base(NonZeroU8::new(self.ebase))
            .exponent_radix(NonZeroU8::new(self.eradix))
            .required_integer_digits(s(0))
            .required_fraction_digits(s(1))
            .required_exponent_digits(s(2))
            .required_mantissa_digits(s(3))
            .no_positive_mantissa_sign(s(4))
            .required_mantissa_sign(s(5))
            .no_exponent_notation(s(6))
            .no_positive_exponent_sign(s(7))
            .required_exponent_sign(s(8))
            .no_exponent_without_fraction(s(9))
            .no_special(s(10))
            .case_sensitive_special(s(11))
            .no_integer_leading_zeros(s(12))
            .no_float_leading_zeros(s(13))
            .required_exponent_notation(s(14))
            .case_sensitive_exponent(s(15))
            .case_sensitive_base_prefix(s(16))
            .case_sensitive_base_suffix(s(17))
            .integer_internal_digit_separator(f(0))
            .fraction_internal_digit_separator(f(1))
            .exponent_internal_digit_separator(f(2))
            .integer_leading_digit_separator(f(3))
            .fraction_leading_digit_separator(f(4))
            .exponent_leading_digit_separator(f(5))
            .integer_trailing_digit_separator(f(6))
            .fraction_trailing_digit_separator(f(7))
            .exponent_trailing_digit_separator(f(8))
            .integer_consecutive_digit_separator(f(9))
            .fraction_consecutive_digit_separator(f(10))
            .exponent_consecutive_digit_separator(f(11))
            .special_digit_separator(f(12))
    }
    /// read the configuration back through the getters
    fn from_builder(b: &NumberFormatBuilder) -> Cfg {
        let g: [bool; 18] = [
            b.get_required_integer_digits(), b.get_required_fraction_digits(), b.get_required_exponent_digits(), b.get_required_mantissa_digits(),
            b.get_no_positive_mantissa_sign(), b.get_required_mantissa_sign(), b.get_no_exponent_notation(), b.get_no_positive_exponent_sign(),
            b.get_required_exponent_sign(), b.get_no_exponent_without_fraction(), b.get_no_special(), b.get_case_sensitive_special(),
            b.get_no_integer_leading_zeros(), b.get_no_float_leading_zeros(), b.get_required_exponent_notation(), b.get_case_sensitive_exponent(),
            b.get_case_sensitive_base_prefix(), b.get_case_sensitive_base_suffix(),
        ];
        let f: [bool; 13] = [
            b.get_integer_internal_digit_separator(), b.get_fraction_internal_digit_separator(), b.get_exponent_internal_digit_separator(),
            b.get_integer_leading_digit_separator(), b.get_fraction_leading_digit_separator(), b.get_exponent_leading_digit_separator(),
            b.get_integer_trailing_digit_separator(), b.get_fraction_trailing_digit_separator(), b.get_exponent_trailing_digit_separator(),
            b.get_integer_consecutive_digit_separator(), b.get_fraction_consecutive_digit_separator(), b.get_exponent_consecutive_digit_separator(),
            b.get_special_digit_separator(),
        ];
        let mut syn = 0;
        for (i, &x) in g.iter().enumerate() {
            syn |= (x as u32) << i;
        }
        let mut sepf = 0;
        for (i, &x) in f.iter().enumerate() {
            sepf |= (x as u32) << i;
        }
        Cfg {
            syn,
            sepf,
            sep: b.get_digit_separator().map_or(0, |x| x.get()),
            prefix: b.get_base_prefix().map_or(0, |x| x.get()),
            suffix: b.get_base_suffix().map_or(0, |x| x.get()),
            mradix: b.get_mantissa_radix(),
            ebase: b.get_exponent_base().map_or(0, |x| x.get()),
            eradix: b.get_exponent_radix().map_or(0, |x| x.get()),
        }
    }
}

fn valid_radix(r: u32) -> bool {
    if HAS_RADIX {
        (2..=36).contains(&r)
    } else if HAS_P2 {
        matches!(r, 2 | 4 | 8 | 10 | 16 | 32)
    } else {
        r == 10
    }
}

fn is_digit_of(c: u8, radix: u32) -> bool {
    matches!(vkit::big::digit_value(c), Some(d) if d < radix)
}

fn printable_ascii(c: u8) -> bool {
    (0x09..=0x0d).contains(&c) || (0x20..0x7f).contains(&c)
}

/// R-fmtvalid: the documented validity of a packed format for this feature set.
fn ref_valid(c: &Cfg) -> bool {
    let m = c.mradix as u32;
    // exponent base / radix default to the mantissa radix when unset... the packed format stores
    // 0 for None and the accessors substitute the mantissa radix
    let b = if c.ebase == 0 { m } else { c.ebase as u32 };
    let e = if c.eradix == 0 { m } else { c.eradix as u32 };
    if !valid_radix(m) || !valid_radix(b) || !valid_radix(e) {
        return false;
    }
    // a separator character only counts when a separator flag carries it into the packed format
    let sep = if c.sepf != 0 { c.sep } else { 0 };
    let big = m.max(e);
    let ctl_ok = |v: u8| v == 0 || (printable_ascii(v) && !is_digit_of(v, big) && v != b'+' && v != b'-');
    if !(ctl_ok(sep) && ctl_ok(c.prefix) && ctl_ok(c.suffix)) {
        return false;
    }
    if sep != 0 && !HAS_FORMAT {
        return false;
    }
    if (c.prefix != 0 || c.suffix != 0) && !(HAS_FORMAT && HAS_P2) {
        return false;
    }
    let set: Vec<u8> = [sep, c.prefix, c.suffix].into_iter().filter(|&x| x != 0).collect();
    for i in 0..set.len() {
        for j in i + 1..set.len() {
            if set[i] == set[j] {
                return false;
            }
        }
    }
    let s = |i: usize| c.syn >> i & 1 == 1;
    if s(6) && s(14) {
        return false; // no_exponent_notation & required_exponent_notation
    }
    if s(4) && s(5) {
        return false;
    }
    if s(7) && s(8) {
        return false;
    }
    if s(10) && (s(11) || c.sepf >> 12 & 1 == 1) {
        return false;
    }
    for comp in 0..3 {
        let i = c.sepf >> comp & 1;
        let l = c.sepf >> (3 + comp) & 1;
        let t = c.sepf >> (6 + comp) & 1;
        let cc = c.sepf >> (9 + comp) & 1;
        if cc == 1 && i + l + t == 0 {
            return false;
        }
    }
    true
}

struct Ck<'a> {
    rep: &'a Report,
    fam: Fam<'a>,
}

impl<'a> Ck<'a> {
    fn check(&mut self, c: &Cfg) {
        self.fam.states += 1;
        self.fam.cases += 1;
        self.fam.calls += 3;
        let key = format!("builder|{:x}|{:x}|{:02x}{:02x}{:02x}|{}_{}_{}", c.syn, c.sepf, c.sep, c.prefix, c.suffix, c.mradix, c.ebase, c.eradix);
        let b = c.builder();
        // getters reflect setters
        let back = Cfg::from_builder(&b);
        if &back != c {
            self.rep.violation(key.clone(), format!("C18 getters do not reflect setters: set {:?} got {:?}", c, back));
            return;
        }
        let expect = ref_valid(c);
        if !expect {
            self.fam.nontrivial += 1;
        }
        let strict = guarded(|| b.build_strict());
        match (expect, &strict) {
            (true, Ok(_)) | (false, Err(_)) => {}
            (true, Err(p)) => {
                self.rep.violation(key.clone(), format!("C18 build_strict panicked ({}) for a format that satisfies the documented constraints: {:?}", p, c));
                return;
            }
            (false, Ok(_)) => {
                self.rep.violation(key.clone(), format!("C18 build_strict accepted a format that violates the documented constraints: {:?}", c));
                return;
            }
        }
        // rebuild round trip (the separator byte is only carried when a separator flag is set)
        let packed = b.build_unchecked();
        let rb = NumberFormatBuilder::rebuild(packed);
        let mut want = c.clone();
        if want.sepf == 0 {
            want.sep = 0;
        }
        // an unset exponent base / exponent radix means "same as the mantissa radix"; the packed
        // format decodes it that way
        if want.ebase == 0 {
            want.ebase = want.mradix;
        }
        if want.eradix == 0 {
            want.eradix = want.mradix;
        }
        let got = Cfg::from_builder(&rb);
        if got != want {
            self.rep.violation(key.clone(), format!("C18 rebuild(build_unchecked(b)) differs: built from {:?}, rebuilt {:?}", want, got));
            return;
        }
        // a second round trip is a fixed point (the packed bits may differ from the first packing
        // only in how an unset exponent base / radix is stored)
        let packed2 = rb.build_unchecked();
        let rb2 = NumberFormatBuilder::rebuild(packed2);
        if Cfg::from_builder(&rb2) != got || rb2.build_unchecked() != packed2 {
            self.rep.violation(key, format!("C18 rebuild is not a fixed point for {:?}", c));
        }
    }
    fn done(self) {
        self.fam.finish();
    }
}

#[cfg(not(all(feature = "format", feature = "power-of-two")))]
fn builder_space(rep: &Report, _cli: &Cli) {
    // only the default builder can be constructed through the public API in this feature set
    let mut c = Ck { rep, fam: Fam::new(rep, "C18:DEFAULT") };
    let mut cfg = Cfg::standard();
    cfg.ebase = 0;
    c.check(&cfg);
    c.done();
}

#[cfg(all(feature = "format", feature = "power-of-two"))]
fn builder_space(rep: &Report, cli: &Cli) {
    let thorough = cli.tier == "thorough";
    // 1. all 2^18 syntax flag vectors
    par_chunks(1 << 18, 1 << 12, cli.threads, |_, r| {
        let mut c = Ck { rep, fam: Fam::new(rep, "C18:SYNTAX") };
        for syn in r {
            let mut cfg = Cfg::standard();
            cfg.syn = syn as u32;
            c.check(&cfg);
        }
        c.done();
    });
    // 2. all 2^13 separator flag vectors x separator byte
    par_chunks(1 << 13, 1 << 9, cli.threads, |_, r| {
        let mut c = Ck { rep, fam: Fam::new(rep, "C18:SEPFLAGS") };
        for sepf in r {
            for sep in [0u8, b'_'] {
                for syn in [0b1100u32, 0b1100 | 1 << 10] {
                    let mut cfg = Cfg::standard();
                    cfg.sepf = sepf as u32;
                    cfg.sep = sep;
                    cfg.syn = syn;
                    c.check(&cfg);
                }
            }
        }
        c.done();
    });
    // 3. every punctuation byte x radix, alone and in pairs
    let mut c = Ck { rep, fam: Fam::new(rep, "C18:PUNCT") };
    for radix in [10u8, 16, 36, 2] {
        for er in [0u8, 16, 36] {
            for v in 0..=255u8 {
                for which in 0..3 {
                    let mut cfg = Cfg::standard();
                    cfg.mradix = radix;
                    cfg.eradix = er;
                    match which {
                        0 => {
                            cfg.sep = v;
                            cfg.sepf = 1;
                        }
                        1 => cfg.prefix = v,
                        _ => cfg.suffix = v,
                    }
                    c.check(&cfg);
                    // separator byte without any separator flag
                    if which == 0 {
                        cfg.sepf = 0;
                        c.check(&cfg);
                    }
                }
            }
        }
    }
    let chars: Vec<u8> = vec![0, b'_', b'x', b'h', b',', b'\'', b'+', b'9', b'a', b'z', b' ', 0x7f, 0x80];
    for &a in &chars {
        for &b in &chars {
            for &d in &chars {
                for sepf in [0u32, 1] {
                    let mut cfg = Cfg::standard();
                    cfg.sep = a;
                    cfg.sepf = sepf;
                    cfg.prefix = b;
                    cfg.suffix = d;
                    c.check(&cfg);
                }
            }
        }
    }
    c.done();
    // 4. radix fields: every byte value for each field, and all triples in 0..=37
    let mut c = Ck { rep, fam: Fam::new(rep, "C18:RADIX") };
    for v in 0..=255u8 {
        let mut cfg = Cfg::standard();
        cfg.mradix = v;
        c.check(&cfg);
        let mut cfg = Cfg::standard();
        cfg.ebase = v;
        c.check(&cfg);
        let mut cfg = Cfg::standard();
        cfg.eradix = v;
        c.check(&cfg);
    }
    let lim = if thorough { 38 } else { 38 };
    for m in 0..lim {
        for b in 0..lim {
            for e in 0..lim {
                let mut cfg = Cfg::standard();
                cfg.mradix = m;
                cfg.ebase = b;
                cfg.eradix = e;
                c.check(&cfg);
            }
        }
    }
    c.done();
}

fn leak(s: Vec<u8>) -> &'static [u8] {
    Box::leak(s.into_boxed_slice())
}

fn ref_special_valid(s: Option<&[u8]>, first: (u8, u8)) -> bool {
    match s {
        None => true,
        Some(w) => !w.is_empty() && w.len() <= 50 && (w[0] == first.0 || w[0] == first.1) && w.iter().all(|c| c.is_ascii_alphabetic()),
    }
}

fn options_space(rep: &Report) {
    let mut fam = Fam::new(rep, "C18:OPTIONS");
    // exponent / decimal point over all byte values (parse float options and write float options)
    for v in 0..=255u8 {
        for which in 0..2 {
            fam.states += 1;
            fam.cases += 1;
            fam.calls += 4;
            let pb = if which == 0 { ParseFloatOptions::builder().exponent(v) } else { ParseFloatOptions::builder().decimal_point(v) };
            let expect = printable_ascii(v);
            let key = format!("options|parse|{}|{:02x}", which, v);
            if pb.is_valid() != expect || pb.build().is_ok() != expect || guarded(|| pb.build_strict()).is_ok() != expect {
                rep.violation(key, format!("C18 ParseFloatOptions {} = {:#x}: is_valid={} build.is_ok={} ; documented validity (printable ASCII) = {}", if which == 0 { "exponent" } else { "decimal_point" }, v, pb.is_valid(), pb.build().is_ok(), expect));
            }
            let wb = if which == 0 { WriteFloatOptions::builder().exponent(v) } else { WriteFloatOptions::builder().decimal_point(v) };
            let key = format!("options|write|{}|{:02x}", which, v);
            if wb.is_valid() != expect || wb.build().is_ok() != expect || guarded(|| wb.build_strict()).is_ok() != expect {
                rep.violation(key, format!("C18 WriteFloatOptions {} = {:#x}: is_valid={} build.is_ok={} ; documented validity (printable ASCII) = {}", if which == 0 { "exponent" } else { "decimal_point" }, v, wb.is_valid(), wb.build().is_ok(), expect));
            }
            // getter reflects setter
            let o = pb.build_unchecked();
            let got = if which == 0 { o.exponent() } else { o.decimal_point() };
            if got != v {
                rep.violation(format!("options|parse-get|{}|{:02x}", which, v), "C18 ParseFloatOptions getter does not reflect setter".into());
            }
            let o2 = o.rebuild().build_unchecked();
            if o2 != o {
                rep.violation(format!("options|parse-rebuild|{}|{:02x}", which, v), "C18 ParseFloatOptions rebuild differs".into());
            }
        }
    }
    // special strings
    let mut words: Vec<Option<&'static [u8]>> = vec![None, Some(b""), Some(b"n"), Some(b"N"), Some(b"i"), Some(b"I"), Some(b"x"), Some(b"nan"), Some(b"inf"), Some(b"infinity"), Some(b"n1"), Some(b"i-"), Some(b"na\xffn"), Some(b"n n")];
    for len in [49usize, 50, 51, 52] {
        for first in [b'n', b'i'] {
            let mut w = vec![first];
            w.extend(std::iter::repeat(b'a').take(len - 1));
            words.push(Some(leak(w)));
        }
    }
    for &w in &words {
        fam.states += 1;
        fam.cases += 1;
        fam.nontrivial += 1;
        let vn = ref_special_valid(w, (b'n', b'N'));
        let vi = ref_special_valid(w, (b'i', b'I'));
        let show = w.map(|x| show_bytes(x));
        let b = ParseFloatOptions::builder().nan_string(w);
        if b.is_valid() != vn || b.build().is_ok() != vn {
            rep.violation(format!("options|parse-nan|{}", hex(w.unwrap_or(b"-"))), format!("C18 ParseFloatOptions nan_string {:?}: is_valid={} build.is_ok={} ; documented validity = {}", show, b.is_valid(), b.build().is_ok(), vn));
        }
        // documented cross rule: the short infinity string must not be longer than the long one
        // (default "infinity", 8 letters)
        let vi_short = vi && w.map_or(true, |x| x.len() <= 8);
        let b = ParseFloatOptions::builder().inf_string(w);
        if b.is_valid() != vi_short || b.build().is_ok() != vi_short {
            rep.violation(format!("options|parse-inf|{}", hex(w.unwrap_or(b"-"))), format!("C18 ParseFloatOptions inf_string {:?}: is_valid={} build.is_ok={} ; documented validity = {}", show, b.is_valid(), b.build().is_ok(), vi));
        }
        // the long infinity string must not be shorter than the short one (default inf = "inf")
        let vinf = vi && w.map_or(true, |x| x.len() >= 3);
        let b = ParseFloatOptions::builder().infinity_string(w);
        // infinity = None while inf is set: the setter docs allow it, is_valid rejects it -> not judged
        if w.is_some() && (b.is_valid() != vinf || b.build().is_ok() != vinf) {
            rep.violation(format!("options|parse-infinity|{}", hex(w.unwrap_or(b"-"))), format!("C18 ParseFloatOptions infinity_string {:?}: is_valid={} build.is_ok={} ; documented validity = {}", show, b.is_valid(), b.build().is_ok(), vinf));
        }
        let b = WriteFloatOptions::builder().nan_string(w);
        if b.is_valid() != vn || b.build().is_ok() != vn {
            rep.violation(format!("options|write-nan|{}", hex(w.unwrap_or(b"-"))), format!("C18 WriteFloatOptions nan_string {:?}: is_valid={} build.is_ok={} ; documented validity = {}", show, b.is_valid(), b.build().is_ok(), vn));
        }
        let b = WriteFloatOptions::builder().inf_string(w);
        if b.is_valid() != vi || b.build().is_ok() != vi {
            rep.violation(format!("options|write-inf|{}", hex(w.unwrap_or(b"-"))), format!("C18 WriteFloatOptions inf_string {:?}: is_valid={} build.is_ok={} ; documented validity = {}", show, b.is_valid(), b.build().is_ok(), vi));
        }
    }
    // the three validators of one builder agree on every (nan, inf, infinity) triple, and what
    // build() hands out calls itself valid
    for &n in &words {
        for &i in &words {
            for &f in &words {
                fam.states += 1;
                fam.cases += 1;
                fam.calls += 3;
                let b = ParseFloatOptions::builder().nan_string(n).inf_string(i).infinity_string(f);
                let v = b.is_valid();
                let built = b.build();
                let strict_ok = guarded(|| b.build_strict()).is_ok();
                let self_valid = built.as_ref().map_or(true, |o| o.is_valid());
                if v != built.is_ok() || v != strict_ok || !self_valid {
                    rep.violation(
                        format!("options|parse-triple|{}|{}|{}", hex(n.unwrap_or(b"-")), hex(i.unwrap_or(b"-")), hex(f.unwrap_or(b"-"))),
                        format!("C18 ParseFloatOptions nan={:?} inf={:?} infinity={:?}: is_valid()={} build().is_ok()={} build_strict() returns={} built.is_valid()={}", n.map(show_bytes), i.map(show_bytes), f.map(show_bytes), v, built.is_ok(), strict_ok, self_valid),
                    );
                }
            }
        }
        for &i in &words {
            let b = WriteFloatOptions::builder().nan_string(n).inf_string(i);
            let v = b.is_valid();
            let built = b.build();
            let strict_ok = guarded(|| b.build_strict()).is_ok();
            if v != built.is_ok() || v != strict_ok || !built.as_ref().map_or(true, |o| o.is_valid()) {
                rep.violation(
                    format!("options|write-pair|{}|{}", hex(n.unwrap_or(b"-")), hex(i.unwrap_or(b"-"))),
                    format!("C18 WriteFloatOptions nan={:?} inf={:?}: is_valid()={} build().is_ok()={} build_strict() returns={}", n.map(show_bytes), i.map(show_bytes), v, built.is_ok(), strict_ok),
                );
            }
        }
    }
    // digit counts and breaks of the write options
    use core::num::{NonZeroI32, NonZeroUsize};
    let counts = [None, NonZeroUsize::new(1), NonZeroUsize::new(2), NonZeroUsize::new(17), NonZeroUsize::new(300)];
    let breaks = [None, NonZeroI32::new(-400), NonZeroI32::new(-1), NonZeroI32::new(1), NonZeroI32::new(400)];
    for &mx in &counts {
        for &mn in &counts {
            for &pb in &breaks {
                for &nb in &breaks {
                    fam.states += 1;
                    fam.cases += 1;
                    let b = WriteFloatOptions::builder().max_significant_digits(mx).min_significant_digits(mn).positive_exponent_break(pb).negative_exponent_break(nb);
                    let expect = mx.map_or(usize::MAX, |x| x.get()) >= mn.map_or(0, |x| x.get()) && nb.map_or(true, |x| x.get() < 0) && pb.map_or(true, |x| x.get() > 0);
                    if b.build().is_ok() != expect || b.is_valid() != expect {
                        rep.violation(format!("options|write-digits|{:?}|{:?}|{:?}|{:?}", mx, mn, pb, nb), format!("C18 WriteFloatOptions max={:?} min={:?} pos_break={:?} neg_break={:?}: is_valid={} build.is_ok={} ; documented validity = {}", mx, mn, pb, nb, b.is_valid(), b.build().is_ok(), expect));
                    }
                    let o = b.build_unchecked();
                    if o.max_significant_digits() != mx || o.min_significant_digits() != mn || o.positive_exponent_break() != pb || o.negative_exponent_break() != nb {
                        rep.violation(format!("options|write-get|{:?}|{:?}|{:?}|{:?}", mx, mn, pb, nb), "C18 WriteFloatOptions getters do not reflect setters".into());
                    }
                }
            }
        }
    }
    if fam.want_sample() {
        rep.sample("C18:OPTIONS exponent/decimal_point bytes 0..=255, special strings, digit counts and breaks".into());
    }
    fam.finish();
}

/// catalogued formats: lexical's compile-time verdict vs the reference; invalid formats and
/// invalid punctuation through all parse entry points.
fn compile_time(rep: &Report, cli: &Cli) {
    let thorough = cli.tier == "thorough";
    let mut fam = Fam::new(rep, "C18:COMPILED");
    let cat = catalogue(&[]);
    let po = ParseFloatOptions::new();
    let io = ParseIntegerOptions::new();
    let mut inputs: Vec<Vec<u8>> = Vec::new();
    let alpha: [&[u8]; 7] = [b"+", b"-", b"0", b"1", b".", b"e", b"x"];
    vkit::gen::for_each_string(&alpha, if thorough { 5 } else { 4 }, &mut |s: &[u8]| inputs.push(s.to_vec()));
    for f in &cat {
        if f.group == "PREBUILT" {
            continue; // their descriptors come from lexical's own getters
        }
        fam.states += 1;
        fam.cases += 1;
        let d = &f.desc;
        // descriptor -> Cfg
        let mut c = Cfg::standard();
        let flags = [d.required_integer_digits, d.required_fraction_digits, d.required_exponent_digits, d.required_mantissa_digits, d.no_positive_mantissa_sign, d.required_mantissa_sign, d.no_exponent_notation, d.no_positive_exponent_sign, d.required_exponent_sign, d.no_exponent_without_fraction, d.no_special, d.case_sensitive_special, d.no_integer_leading_zeros, d.no_float_leading_zeros, d.required_exponent_notation, d.case_sensitive_exponent, d.case_sensitive_base_prefix, d.case_sensitive_base_suffix];
        c.syn = 0;
        for (i, &x) in flags.iter().enumerate() {
            c.syn |= (x as u32) << i;
        }
        c.sepf = 0;
        for comp in 0..3 {
            c.sepf |= (d.internal[comp] as u32) << comp | (d.leading[comp] as u32) << (3 + comp) | (d.trailing[comp] as u32) << (6 + comp) | (d.consecutive[comp] as u32) << (9 + comp);
        }
        c.sepf |= (d.special_sep as u32) << 12;
        c.sep = d.sep;
        c.prefix = d.prefix;
        c.suffix = d.suffix;
        c.mradix = d.mantissa_radix as u8;
        c.ebase = d.exponent_base as u8;
        c.eradix = d.exponent_radix as u8;
        let expect = ref_valid(&c);
        let key = format!("compiled|{}|valid", d.name);
        if f.lexical_valid != expect || (f.lexical_error == lexical_core::Error::Success) != expect {
            rep.violation(key, format!("C18 format_is_valid::<{}>() = {} (format_error = {:?}) but the documented constraints say {}", d.name, f.lexical_valid, f.lexical_error, expect));
            continue;
        }
        if !expect {
            fam.nontrivial += 1;
            // every entry point, every input: configuration error, never a value, never a panic
            for s in &inputs {
                fam.calls += 6;
                let rs: Vec<(&str, Result<Result<(), lexical_core::Error>, String>)> = vec![
                    ("parse::<f64>", guarded(|| (f.f64.parse)(s, &po).map(|_| ()))),
                    ("parse_partial::<f64>", guarded(|| (f.f64.partial)(s, &po).map(|_| ()))),
                    ("parse::<f32>", guarded(|| (f.f32.parse)(s, &po).map(|_| ()))),
                    ("parse_partial::<f32>", guarded(|| (f.f32.partial)(s, &po).map(|_| ()))),
                    ("parse::<i64>", guarded(|| (f.i64.parse)(s, &io).map(|_| ()))),
                    ("parse_partial::<i64>", guarded(|| (f.i64.partial)(s, &io).map(|_| ()))),
                ];
                for (name, r) in rs {
                    let ok = match &r {
                        Ok(Err(e)) => e.index().is_none() && *e == f.lexical_error,
                        _ => false,
                    };
                    if !ok {
                        rep.violation(format!("compiled|{}|{}|{}", d.name, name, hex(s)), format!("C18 [{}] {}({:?}) = {:?} ; the format is invalid, expected Err({:?})", d.name, name, show_bytes(s), r, f.lexical_error));
                    }
                }
            }
        }
    }
    // invalid punctuation options against valid formats
    let bad: Vec<(&str, ParseFloatOptions)> = vec![
        ("point_eq_exponent", ParseFloatOptions::builder().decimal_point(b'e').build_unchecked()),
        ("point_is_digit", ParseFloatOptions::builder().decimal_point(b'5').build_unchecked()),
        ("exponent_is_digit", ParseFloatOptions::builder().exponent(b'5').build_unchecked()),
        ("point_is_sign", ParseFloatOptions::builder().decimal_point(b'+').build_unchecked()),
        ("exponent_is_sign", ParseFloatOptions::builder().exponent(b'-').build_unchecked()),
        ("point_non_ascii", ParseFloatOptions::builder().decimal_point(0xff).build_unchecked()),
        ("exponent_nul", ParseFloatOptions::builder().exponent(0).build_unchecked()),
        ("point_eq_sep", ParseFloatOptions::builder().decimal_point(b'_').build_unchecked()),
        ("exponent_eq_prefix", ParseFloatOptions::builder().exponent(b'x').build_unchecked()),
        ("exponent_eq_suffix", ParseFloatOptions::builder().exponent(b'h').build_unchecked()),
    ];
    for f in &cat {
        if !f.lexical_valid || !matches!(f.group, "STD" | "SEPX" | "CASE" | "RADIX" | "SEP15") {
            continue;
        }
        let d = &f.desc;
        for (bname, o) in &bad {
            let (p, e) = (o.decimal_point(), o.exponent());
            let big = d.mantissa_radix.max(d.exponent_radix);
            let ctl = |v: u8| v != 0 && printable_ascii(v) && !is_digit_of(v, big) && v != b'+' && v != b'-';
            let mut invalid = !ctl(p) || !ctl(e) || p == e;
            if HAS_FORMAT {
                for x in [d.sep, d.prefix, d.suffix] {
                    if x != 0 && (x == p || x == e) {
                        invalid = true;
                    }
                }
            }
            if !invalid {
                continue;
            }
            fam.states += 1;
            fam.cases += 1;
            fam.nontrivial += 1;
            for s in inputs.iter().take(400) {
                fam.calls += 4;
                let rs: Vec<(&str, Result<Result<(), lexical_core::Error>, String>)> = vec![
                    ("parse::<f64>", guarded(|| (f.f64.parse)(s, o).map(|_| ()))),
                    ("parse_partial::<f64>", guarded(|| (f.f64.partial)(s, o).map(|_| ()))),
                    ("parse::<f32>", guarded(|| (f.f32.parse)(s, o).map(|_| ()))),
                    ("parse_partial::<f32>", guarded(|| (f.f32.partial)(s, o).map(|_| ()))),
                ];
                for (name, r) in rs {
                    let ok = matches!(&r, Ok(Err(e)) if e.index().is_none());
                    if !ok {
                        rep.violation(format!("punct|{}|{}|{}|{}", d.name, bname, name, hex(s)), format!("C18 [{}] {}({:?}) with invalid punctuation options ({}: point {:?} exponent {:?}) = {:?} ; expected a configuration error", d.name, name, show_bytes(s), bname, p as char, e as char, r));
                    }
                }
            }
        }
    }
    if fam.want_sample() {
        rep.sample(format!("C18:COMPILED {} catalogued formats, {} inputs per invalid format", cat.len(), inputs.len()));
    }
    fam.finish();
}

fn main() {
    let cli = parse_cli();
    silence_panics();
    let mut rep = Report::new("C18", config_name(), &cli.tier);
    rep.max_per_group = 50;
    if cli.replay.is_some() {
        // the whole space is small: replay = rerun
        builder_space(&rep, &cli);
        options_space(&rep);
        compile_time(&rep, &cli);
        finish(&rep, &cli);
    }
    builder_space(&rep, &cli);
    options_space(&rep);
    compile_time(&rep, &cli);
    let _ = SYNTAX;
    finish(&rep, &cli);
}
