//! C19 — lossy parsing accepts/rejects identically and is within one ULP.

use harness::common::*;
use harness::floatfam::*;
use lexical_core::ParseFloatOptions;
use vkit::out::*;

const OL: ParseFloatOptions = ParseFloatOptions::builder().lossy(true).build_unchecked();
const STD: u128 = lexical_core::format::STANDARD;

fn std_subjects<T: Flt>() -> (Subject<T>, Subject<T>) {
    (
        Subject { name: "std", parse: |b| lexical_core::parse::<T>(b), parse_partial: |b| lexical_core::parse_partial::<T>(b), lossy: false },
        Subject {
            name: "std",
            parse: |b| lexical_core::parse_with_options::<T, STD>(b, &OL),
            parse_partial: |b| lexical_core::parse_partial_with_options::<T, STD>(b, &OL),
            lossy: true,
        },
    )
}

fn run_spell<T: Flt>(rep: &Report, cli: &Cli, sub: &Subject<T>, subl: &Subject<T>, spell: &Spell, decimal: bool) {
    let thorough = cli.tier == "thorough";
    let th = cli.threads;
    let mk = |fam: &'static str| {
        let (spell, sub, subl) = (spell.clone(), sub.clone(), subl.clone());
        move || LossyChecker::<T>::new(rep, &sub, &subl, &spell, fam)
    };
    let (qlo, qhi) = spell.exp_range(T::FMT, 8);
    if decimal {
        let alpha: [&[u8]; 10] = [b"+", b"-", b"0", b"1", b"5", b"9", b".", b"e", b"E", b"x"];
        fam_s(&alpha, if thorough { 7 } else { 5 }, th, rep, &mk("S"));
        fam_me(spell, if thorough { 5 } else { 4 }, qlo - 4, qhi, th, &mk("ME"));
        fam_me_variants(spell, 2, qlo - 3, qhi, th, &mk("MEV"));
        fam_cf(spell, T::FMT, if thorough { 12 } else { 4 }, qlo - 19, qhi, th, &mk("CF"));
        fam_hw(spell, T::FMT, if thorough { 1 } else { 0 }, 1, th, &mk("HW"));
        fam_bd(spell, T::FMT, &mk("BD"));
    } else if spell.base == spell.radix {
        let d = if spell.radix <= 4 { 5 } else if spell.radix <= 10 { 3 } else { 2 };
        fam_me(spell, if thorough { d + 1 } else { d }, qlo - d as i64, qhi, th, &mk("ME"));
        if !spell.radix.is_power_of_two() {
            fam_cf(spell, T::FMT, if thorough { 6 } else { 2 }, qlo - 14, qhi, th, &mk("CF"));
        }
        fam_hw(spell, T::FMT, 0, if thorough { 1 } else { 8 }, th, &mk("HW"));
        fam_bd(spell, T::FMT, &mk("BD"));
    } else {
        fam_mixed(spell, T::FMT, 2, 0, th, &mk("MIXED"));
    }
}

fn run<T: Flt>(rep: &Report, cli: &Cli) {
    let (s, sl) = std_subjects::<T>();
    run_spell::<T>(rep, cli, &s, &sl, &Spell::decimal(), true);
    #[cfg(feature = "power-of-two")]
    {
        use harness::floatfam::radixsub::*;
        for r in 2..=36u32 {
            if r == 10 {
                continue;
            }
            if let (Some((sub, spell)), Some((subl, _))) = (radix_subject::<T>(r, false), radix_subject::<T>(r, true)) {
                run_spell::<T>(rep, cli, &sub, &subl, &spell, false);
            }
        }
        let a = mixed_subjects::<T>(false);
        let b = mixed_subjects::<T>(true);
        for ((sub, spell), (subl, _)) in a.into_iter().zip(b.into_iter()) {
            run_spell::<T>(rep, cli, &sub, &subl, &spell, false);
        }
    }
}

fn replay<T: Flt>(rep: &Report, name: &str, input: &[u8]) {
    let mut all: Vec<(Subject<T>, Subject<T>, Spell)> = Vec::new();
    let (s, sl) = std_subjects::<T>();
    all.push((s, sl, Spell::decimal()));
    #[cfg(feature = "power-of-two")]
    {
        use harness::floatfam::radixsub::*;
        for r in 2..=36u32 {
            if let (Some((sub, spell)), Some((subl, _))) = (radix_subject::<T>(r, false), radix_subject::<T>(r, true)) {
                all.push((sub, subl, spell));
            }
        }
        for ((sub, spell), (subl, _)) in mixed_subjects::<T>(false).into_iter().zip(mixed_subjects::<T>(true).into_iter()) {
            all.push((sub, subl, spell));
        }
    }
    for (sub, subl, spell) in all {
        if sub.name == name {
            let mut c = LossyChecker::<T>::new(rep, &sub, &subl, &spell, "replay");
            c.check(input);
            c.done();
            return;
        }
    }
}

fn main() {
    let cli = parse_cli();
    silence_panics();
    let rep = Report::new("C19", config_name(), &cli.tier);
    if let Err(e) = vkit::self_check_all() {
        rep.machinery_error(format!("self-check: {e}"));
        finish(&rep, &cli);
    }
    if let Some(key) = &cli.replay {
        let p: Vec<&str> = key.split('|').collect();
        let input = unhex(p[3]);
        if p[0] == "f64" {
            replay::<f64>(&rep, p[2], &input);
        } else {
            replay::<f32>(&rep, p[2], &input);
        }
        finish(&rep, &cli);
    }
    run::<f64>(&rep, &cli);
    run::<f32>(&rep, &cli);
    finish(&rep, &cli);
}
