//! Developer probe: probe <radix|mixedM_B_X> <f32|f64> <string>...
use harness::common::*;
use harness::floatfam::*;
use vkit::simple::{parse_full, Judge};

fn go<T: Flt>(which: &str, inputs: &[String]) {
    #[allow(unused_mut)]
    let mut all: Vec<(Subject<T>, Spell)> = Vec::new();
    #[cfg(feature = "power-of-two")]
    {
        all.extend(radixsub::mixed_subjects::<T>(false));
        for r in 2..=36 {
            if let Some(x) = radixsub::radix_subject::<T>(r, false) {
                all.push(x);
            }
        }
    }
    all.push((
        Subject { name: "std", parse: |b| lexical_core::parse::<T>(b), parse_partial: |b| lexical_core::parse_partial::<T>(b), lossy: false },
        Spell::decimal(),
    ));
    for (sub, spell) in all {
        if sub.name == which {
            let g = spell.grammar();
            let mut j = Judge::new(spell.radix, spell.base);
            for s in inputs {
                let r = (sub.parse)(s.as_bytes());
                let rp = (sub.parse_partial)(s.as_bytes());
                let x = parse_full(&g, s.as_bytes());
                let exp = x.as_ref().map(|x| j.expected_bits(T::FMT, x));
                println!(
                    "{s:?}: parse={:?} partial={:?} expected={:?}",
                    r.map(|v| format!("{:#x}", v.to_bits64())),
                    rp.map(|(v, n)| (format!("{:#x}", v.to_bits64()), n)),
                    exp.map(|b| format!("{:#x} ({})", b, T::from_bits64(b).std_display()))
                );
            }
        }
    }
}

fn main() {
    let a: Vec<String> = std::env::args().skip(1).collect();
    if a[1] == "f64" {
        go::<f64>(&a[0], &a[2..]);
    } else {
        go::<f32>(&a[0], &a[2..]);
    }
}
