//! Helpers shared by explorer binaries.
use std::panic::{catch_unwind, AssertUnwindSafe};

pub fn config_name() -> &'static str {
    // derived from the Cargo features this binary was built with
    const STD: bool = cfg!(feature = "std");
    const CMP: bool = cfg!(feature = "compact");
    const P2: bool = cfg!(feature = "power-of-two");
    const RDX: bool = cfg!(feature = "radix");
    const FMT: bool = cfg!(feature = "format");
    match (STD, CMP, P2, RDX, FMT) {
        (true, false, false, false, false) => "dflt",
        (true, true, false, false, false) => "cmp",
        (true, false, true, false, false) => "p2",
        (true, false, true, true, false) => "rdx",
        (true, false, false, false, true) => "fmt",
        (true, false, true, true, true) => "rdxfmt",
        (true, true, true, true, true) => "cmprdxfmt",
        (true, true, true, true, false) => "cmprdx",
        (false, false, false, false, false) => "nostd",
        (false, true, false, false, false) => "nostd_cmp",
        (false, false, true, true, false) => "nostd_rdx",
        _ => "other",
    }
}

pub fn profile_name() -> &'static str {
    if cfg!(debug_assertions) {
        "reldbg"
    } else {
        "rel"
    }
}

/// Run a subject call, turning a panic into Err(message).
pub fn guarded<T>(f: impl FnOnce() -> T) -> Result<T, String> {
    vkit::out::call_enter();
    let r = catch_unwind(AssertUnwindSafe(f));
    vkit::out::call_exit();
    r.map_err(|e| {
        if let Some(s) = e.downcast_ref::<&str>() {
            s.to_string()
        } else if let Some(s) = e.downcast_ref::<String>() {
            s.clone()
        } else {
            "panic".to_string()
        }
    })
}

use vkit::float::Fmt;

/// Float types under test.
pub trait Flt: Copy + Send + Sync + 'static + lexical_core::FromLexical + lexical_core::ToLexical
    + lexical_core::FromLexicalWithOptions<Options = lexical_core::ParseFloatOptions>
    + lexical_core::ToLexicalWithOptions<Options = lexical_core::WriteFloatOptions>
{
    const FMT: Fmt;
    const NAME: &'static str;
    fn to_bits64(self) -> u64;
    fn from_bits64(b: u64) -> Self;
    fn std_parse(s: &str) -> Option<u64>;
    fn std_sci(self) -> String;
    fn std_display(self) -> String;
}

impl Flt for f64 {
    const FMT: Fmt = vkit::float::F64;
    const NAME: &'static str = "f64";
    fn to_bits64(self) -> u64 {
        self.to_bits()
    }
    fn from_bits64(b: u64) -> Self {
        f64::from_bits(b)
    }
    fn std_parse(s: &str) -> Option<u64> {
        s.parse::<f64>().ok().map(|v| v.to_bits())
    }
    fn std_sci(self) -> String {
        format!("{:e}", self)
    }
    fn std_display(self) -> String {
        format!("{:?}", self)
    }
}

impl Flt for f32 {
    const FMT: Fmt = vkit::float::F32;
    const NAME: &'static str = "f32";
    fn to_bits64(self) -> u64 {
        self.to_bits() as u64
    }
    fn from_bits64(b: u64) -> Self {
        f32::from_bits(b as u32)
    }
    fn std_parse(s: &str) -> Option<u64> {
        s.parse::<f32>().ok().map(|v| v.to_bits() as u64)
    }
    fn std_sci(self) -> String {
        format!("{:e}", self)
    }
    fn std_display(self) -> String {
        format!("{:?}", self)
    }
}

pub fn show_err(e: &lexical_core::Error) -> String {
    format!("{:?}", e)
}
