//! Crash reporting: a SIGSEGV/SIGBUS/SIGABRT handler that prints the case each worker thread was
//! executing (so the driver can name and replay it), then exits with status 3.

use std::sync::atomic::{AtomicUsize, Ordering};

const SLOTS: usize = 64;
const SLOT_LEN: usize = 512;
static mut BUF: [[u8; SLOT_LEN]; SLOTS] = [[0; SLOT_LEN]; SLOTS];
static LENS: [AtomicUsize; SLOTS] = [const { AtomicUsize::new(0) }; SLOTS];

/// Record the case thread-slot `slot` is about to execute.
#[inline]
pub fn set_current(slot: usize, tag: &[u8], input: &[u8]) {
    let s = slot % SLOTS;
    unsafe {
        let b = &mut *core::ptr::addr_of_mut!(BUF[s]);
        let mut n = 0;
        for &c in tag.iter().take(200) {
            b[n] = c;
            n += 1;
        }
        b[n] = b'|';
        n += 1;
        const HEX: &[u8; 16] = b"0123456789abcdef";
        for &c in input.iter().take(140) {
            b[n] = HEX[(c >> 4) as usize];
            b[n + 1] = HEX[(c & 15) as usize];
            n += 2;
        }
        LENS[s].store(n, Ordering::Release);
    }
}

extern "C" fn handler(sig: libc::c_int) {
    unsafe {
        let msg = b"CRASH signal; cases in flight:\n";
        libc::write(2, msg.as_ptr() as *const _, msg.len());
        let mut d = [b'0' + (sig / 10) as u8, b'0' + (sig % 10) as u8, b'\n'];
        libc::write(2, d.as_mut_ptr() as *const _, 3);
        for s in 0..SLOTS {
            let n = LENS[s].load(Ordering::Acquire);
            if n > 0 {
                let b = &*core::ptr::addr_of!(BUF[s]);
                libc::write(1, b"CRASHCASE ".as_ptr() as *const _, 10);
                libc::write(1, b.as_ptr() as *const _, n);
                libc::write(1, b"\n".as_ptr() as *const _, 1);
            }
        }
        libc::_exit(3);
    }
}

pub fn install() {
    unsafe {
        // alternate stack so that stack overflows are reported too
        let ss = libc::stack_t { ss_sp: libc::malloc(1 << 16), ss_flags: 0, ss_size: 1 << 16 };
        libc::sigaltstack(&ss, core::ptr::null_mut());
        for sig in [libc::SIGSEGV, libc::SIGBUS, libc::SIGILL, libc::SIGABRT, libc::SIGFPE] {
            let mut sa: libc::sigaction = core::mem::zeroed();
            sa.sa_sigaction = handler as usize;
            sa.sa_flags = libc::SA_ONSTACK;
            libc::sigaction(sig, &sa, core::ptr::null_mut());
        }
    }
}
