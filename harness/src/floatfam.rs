//! String families for the float parsers (C01, C05, C16, C19) and the checker that judges the
//! real parser's answer with exact arithmetic.

use crate::common::*;
use std::marker::PhantomData;
use vkit::big::{digit_char, Big};
use vkit::float::Fmt;
use vkit::gen;
use vkit::out::*;
use vkit::par::par_items;
use vkit::simple::{parse_full, Expect, Grammar, Judge, Simple};

pub type PRes<T> = Result<T, lexical_core::Error>;

/// The implementation entry points under test (function pointers so that format-specific
/// monomorphisations can be plugged in).
pub struct Subject<T> {
    pub name: &'static str,
    pub parse: fn(&[u8]) -> PRes<T>,
    pub parse_partial: fn(&[u8]) -> PRes<(T, usize)>,
    pub lossy: bool,
}

impl<T> Clone for Subject<T> {
    fn clone(&self) -> Self {
        Subject { name: self.name, parse: self.parse, parse_partial: self.parse_partial, lossy: self.lossy }
    }
}

/// How numbers are spelled for a given radix configuration.
#[derive(Clone, Debug)]
pub struct Spell {
    pub radix: u32,
    pub base: u32,
    pub exp_radix: u32,
    pub exp_char: u8,
}

impl Spell {
    pub fn decimal() -> Spell {
        Spell { radix: 10, base: 10, exp_radix: 10, exp_char: b'e' }
    }
    pub fn grammar(&self) -> Grammar {
        Grammar::radix(self.radix, self.exp_radix, self.exp_char)
    }
    pub fn exp_str(&self, e: i64) -> Vec<u8> {
        let mut v = Vec::new();
        if e < 0 {
            v.push(b'-');
        }
        v.extend(Big::from_u128(e.unsigned_abs() as u128).to_digits(self.exp_radix));
        v
    }
    /// digits + exp_char + exponent
    pub fn plain(&self, digits: &[u8], e: i64) -> Vec<u8> {
        let mut v = digits.to_vec();
        v.push(self.exp_char);
        v.extend(self.exp_str(e));
        v
    }
    /// exponent range (in units of base) covering the finite range of `f` with margin.
    pub fn exp_range(&self, f: Fmt, margin: i64) -> (i64, i64) {
        let l2 = (self.base as f64).log2();
        let lo = ((f.emin() - 1) as f64 / l2).floor() as i64 - margin;
        let hi = ((f.bias() + 1) as f64 / l2).ceil() as i64 + margin;
        (lo, hi)
    }
}

pub trait Checker {
    fn check(&mut self, s: &[u8]);
    fn done(self);
}

/// The C01/C05 checker: accepted + correctly rounded, complete and partial.
pub struct RoundChecker<'a, T: Flt> {
    pub prop: &'static str,
    pub rep: &'a Report,
    pub sub: Subject<T>,
    pub g: Grammar,
    pub judge: Judge,
    pub fam: Fam<'a>,
    pub partial_suffixes: bool,
    pub std_crosscheck: bool,
    _t: PhantomData<T>,
}

impl<'a, T: Flt> RoundChecker<'a, T> {
    pub fn new(
        prop: &'static str,
        rep: &'a Report,
        sub: &Subject<T>,
        spell: &Spell,
        fam: &str,
    ) -> Self {
        RoundChecker {
            prop,
            rep,
            sub: sub.clone(),
            g: spell.grammar(),
            judge: Judge::new(spell.radix, spell.base),
            fam: Fam::new(rep, &format!("{}:{}:{}", T::NAME, sub.name, fam)),
            partial_suffixes: false,
            std_crosscheck: spell.radix == 10 && spell.base == 10 && spell.exp_char == b'e',
            _t: PhantomData,
        }
    }

    fn key(&self, entry: &str, s: &[u8]) -> String {
        format!("{}|{}|{}|{}", T::NAME, entry, self.sub.name, hex(s))
    }

    fn report_wrong(&mut self, entry: &str, s: &[u8], x: &Simple, got: String) {
        let exp = self.judge.expected_bits(T::FMT, x);
        // three-way: std is exact for decimal strings
        if self.std_crosscheck {
            if let Ok(st) = std::str::from_utf8(s) {
                if let Some(sb) = T::std_parse(st) {
                    if sb != exp {
                        self.rep.machinery_error(format!(
                            "reference model and std disagree on {:?}: model={:#x} std={:#x}",
                            st, exp, sb
                        ));
                        return;
                    }
                }
            }
        }
        self.rep.violation(
            self.key(entry, s),
            format!(
                "{} {}({:?}) [{}] = {} ; expected bits {:#x} ({})",
                self.prop,
                entry,
                show_trunc(s),
                self.sub.name,
                got,
                exp,
                T::from_bits64(exp).std_display()
            ),
        );
    }
}

pub fn show_trunc(s: &[u8]) -> String {
    if s.len() <= 120 {
        show_bytes(s)
    } else {
        format!("{}...({} bytes)...{}", show_bytes(&s[..60]), s.len(), show_bytes(&s[s.len() - 40..]))
    }
}

impl<'a, T: Flt> Checker for RoundChecker<'a, T> {
    fn check(&mut self, s: &[u8]) {
        self.fam.states += 1;
        let x = match parse_full(&self.g, s) {
            Some(x) => x,
            None => {
                // the families only generate grammatical strings, except S which filters itself
                self.fam.bump("ungrammatical_skipped");
                return;
            }
        };
        self.fam.cases += 1;
        let (ex, _, nd) = self.judge.value(T::FMT, &x);
        if ex != Expect::Zero || nd > 0 {
            self.fam.nontrivial += 1;
        }
        match ex {
            Expect::Inf => self.fam.bump("overflow"),
            Expect::Zero if nd > 0 => self.fam.bump("underflow"),
            _ => {}
        }
        if nd > 19 {
            self.fam.bump("more_than_19_digits");
        }
        if self.fam.want_sample() {
            self.rep.sample(format!("{} {} {}", self.fam.name, "parse", show_trunc(s)));
        }
        // complete
        let sub = self.sub.clone();
        self.fam.calls += 2;
        let r = guarded(|| (sub.parse)(s));
        let vbits = match r {
            Err(p) => {
                self.rep.violation(self.key("parse", s), format!("{} parse({:?}) panicked: {}", self.prop, show_trunc(s), p));
                return;
            }
            Ok(Err(e)) => {
                self.rep.violation(
                    self.key("parse", s),
                    format!("{} parse({:?}) [{}] rejected a grammatical string: {}", self.prop, show_trunc(s), self.sub.name, show_err(&e)),
                );
                return;
            }
            Ok(Ok(v)) => v.to_bits64(),
        };
        if !self.judge.is_correct(T::FMT, &x, vbits) {
            self.report_wrong("parse", s, &x, format!("bits {:#x} ({})", vbits, T::from_bits64(vbits).std_display()));
            return;
        }
        // partial on the same input: must consume everything with the same value
        let r = guarded(|| (sub.parse_partial)(s));
        match r {
            Ok(Ok((v, n))) if n == s.len() && v.to_bits64() == vbits => {}
            other => {
                let got = match other {
                    Ok(Ok((v, n))) => format!("Ok(bits {:#x}, {})", v.to_bits64(), n),
                    Ok(Err(e)) => format!("Err({})", show_err(&e)),
                    Err(p) => format!("panic {}", p),
                };
                self.report_wrong("parse_partial", s, &x, got);
                return;
            }
        }
        if self.partial_suffixes {
            for suf in [&b"}"[..], b" 1", b"\xff"] {
                // a byte that cannot extend the number
                let mut t = s.to_vec();
                t.extend_from_slice(suf);
                self.fam.bump("partial_suffix_cases");
                self.fam.calls += 1;
                let r = guarded(|| (sub.parse_partial)(&t));
                match r {
                    Ok(Ok((v, n))) if n == s.len() && v.to_bits64() == vbits => {}
                    other => {
                        let got = match other {
                            Ok(Ok((v, n))) => format!("Ok(bits {:#x}, {})", v.to_bits64(), n),
                            Ok(Err(e)) => format!("Err({})", show_err(&e)),
                            Err(p) => format!("panic {}", p),
                        };
                        self.rep.violation(
                            self.key("parse_partial", &t),
                            format!(
                                "{} parse_partial({:?}) [{}] = {} ; expected Ok(bits {:#x}, {})",
                                self.prop,
                                show_trunc(&t),
                                self.sub.name,
                                got,
                                vbits,
                                s.len()
                            ),
                        );
                    }
                }
            }
        }
    }
    fn done(self) {
        self.fam.finish();
    }
}

// ---------------------------------------------------------------------------------------------
// family generators (radix generic). Each calls `sink(work item index, &mut dyn FnMut(&[u8]))`.
// ---------------------------------------------------------------------------------------------

/// numerals with exactly `n` digits in `radix`, first digit non-zero: count
fn numerals(radix: u32, n: u32) -> u64 {
    (radix as u64 - 1) * (radix as u64).pow(n - 1)
}

pub fn to_numeral(mut w: u64, radix: u32) -> Vec<u8> {
    if w == 0 {
        return vec![b'0'];
    }
    let mut v = Vec::new();
    while w > 0 {
        v.push(digit_char((w % radix as u64) as u32));
        w /= radix as u64;
    }
    v.reverse();
    v
}

/// ME: every significand with <= d digits x every exponent in [qlo, qhi], plain spelling.
pub fn fam_me<C: Checker>(
    spell: &Spell,
    d: u32,
    qlo: i64,
    qhi: i64,
    threads: usize,
    make: &(dyn Fn() -> C + Sync),
) -> u64 {
    let wmax: u64 = (spell.radix as u64).pow(d);
    let qs: Vec<i64> = (qlo..=qhi).collect();
    par_items(&qs, threads, |_, &q| {
        let mut c = make();
        let es = spell.exp_str(q);
        let mut buf: Vec<u8> = Vec::with_capacity(40);
        for w in 1..wmax {
            buf.clear();
            buf.extend(to_numeral(w, spell.radix));
            buf.push(spell.exp_char);
            buf.extend_from_slice(&es);
            c.check(&buf);
        }
        c.done();
    });
    let _ = numerals;
    (wmax - 1) * qs.len() as u64
}

/// Spelling variants V of digits * base^q (digits without sign).
pub fn spellings(spell: &Spell, digits: &[u8], q: i64) -> Vec<Vec<u8>> {
    let mut out: Vec<Vec<u8>> = Vec::new();
    let n = digits.len();
    let ec = spell.exp_char;
    let upper = if ec.is_ascii_lowercase() { ec.to_ascii_uppercase() } else { ec.to_ascii_lowercase() };
    // plain and no-exponent-when-zero
    out.push(spell.plain(digits, q));
    // point moved to every position (only valid when base == radix: moving the point by k digits
    // changes the exponent by k units of radix)
    if spell.base == spell.radix {
        for k in 0..=n {
            // k digits before the point
            let mut v = Vec::new();
            v.extend_from_slice(&digits[..k]);
            v.push(b'.');
            v.extend_from_slice(&digits[k..]);
            v.push(ec);
            v.extend(spell.exp_str(q + (n - k) as i64));
            out.push(v);
        }
        // leading zeros
        for z in [1usize, 20] {
            let mut v = vec![b'0'; z];
            v.extend_from_slice(digits);
            v.push(ec);
            v.extend(spell.exp_str(q));
            out.push(v);
            // zeros after the point: 0.000ddd e(q + z + n)
            let mut v = b"0.".to_vec();
            v.extend(std::iter::repeat(b'0').take(z));
            v.extend_from_slice(digits);
            v.push(ec);
            v.extend(spell.exp_str(q + (z + n) as i64));
            out.push(v);
        }
        // trailing fractional zeros
        for z in [1usize, 30] {
            let mut v = digits.to_vec();
            v.push(b'.');
            v.extend(std::iter::repeat(b'0').take(z));
            v.push(ec);
            v.extend(spell.exp_str(q));
            out.push(v);
            // trailing integer zeros: ddd000 e(q - z)
            let mut v = digits.to_vec();
            v.extend(std::iter::repeat(b'0').take(z));
            v.push(ec);
            v.extend(spell.exp_str(q - z as i64));
            out.push(v);
        }
    }
    // other exponent case, explicit plus signs, negative
    let mut v = digits.to_vec();
    v.push(upper);
    v.extend(spell.exp_str(q));
    out.push(v);
    let mut v = b"+".to_vec();
    v.extend_from_slice(digits);
    v.push(ec);
    if q >= 0 {
        v.push(b'+');
    }
    v.extend(spell.exp_str(q));
    out.push(v);
    let mut v = b"-".to_vec();
    v.extend(spell.plain(digits, q));
    out.push(v);
    // exponent with leading zeros
    let mut v = digits.to_vec();
    v.push(ec);
    if q < 0 {
        v.push(b'-');
    }
    v.extend_from_slice(b"000");
    v.extend(spell.exp_str(q.abs()));
    out.push(v);
    if q == 0 {
        out.push(digits.to_vec());
        let mut v = digits.to_vec();
        v.push(b'.');
        out.push(v);
    }
    out
}

/// ME x V: spelling variants for every significand with <= d digits.
pub fn fam_me_variants<C: Checker>(
    spell: &Spell,
    d: u32,
    qlo: i64,
    qhi: i64,
    threads: usize,
    make: &(dyn Fn() -> C + Sync),
) {
    let wmax: u64 = (spell.radix as u64).pow(d);
    let qs: Vec<i64> = (qlo..=qhi).collect();
    par_items(&qs, threads, |_, &q| {
        let mut c = make();
        for w in 1..wmax {
            let ds = to_numeral(w, spell.radix);
            for s in spellings(spell, &ds, q) {
                c.check(&s);
            }
        }
        c.done();
    });
}

/// CF: continued-fraction hard cases per exponent, three digit-count regimes, three spellings.
pub fn fam_cf<C: Checker>(
    spell: &Spell,
    f: Fmt,
    per: usize,
    qlo: i64,
    qhi: i64,
    threads: usize,
    make: &(dyn Fn() -> C + Sync),
) {
    assert!(spell.base == spell.radix);
    let qs: Vec<i64> = (qlo..=qhi).collect();
    let r = spell.radix as u64;
    // significand ranges: [2^63, 2^64), [r^(k-1), r^k) for the largest k with r^k < 2^64,
    // [2^52,2^53) (fits the mantissa: exact products), [2^54, 2^55)
    let mut k = 1u32;
    while r.checked_pow(k + 1).is_some() {
        k += 1;
    }
    let ranges: Vec<(Big, Big)> = vec![
        (Big::from_u64(1 << 63), Big::from_u64(u64::MAX)),
        (Big::from_u64(r.pow(k - 1)), Big::from_u64(r.pow(k) - 1)),
        (Big::from_u64(1 << 54), Big::from_u64((1 << 55) - 1)),
        (Big::from_u64(1 << 59), Big::from_u64((1 << 60) - 1)),
    ];
    let kbits = f.mant_bits + 2; // odd k with mant_bits+2 bits <=> midpoint between floats
    par_items(&qs, threads, |_, &q| {
        let mut c = make();
        for (lo, hi) in &ranges {
            for w in gen::cf_hard(spell.radix, q, kbits, lo, hi, per) {
                let ds = w.to_digits(spell.radix);
                // (a) as is
                c.check(&spell.plain(&ds, q));
                // (b) w 000..01
                let mut d2 = ds.clone();
                d2.extend(std::iter::repeat(b'0').take(21));
                d2.push(b'1');
                c.check(&spell.plain(&d2, q - 22));
                // (c) (w-1) 99..9 (max digit)
                let wm = w.sub(&Big::from_u64(1));
                let mut d3 = wm.to_digits(spell.radix);
                d3.extend(std::iter::repeat(digit_char(spell.radix - 1)).take(22));
                c.check(&spell.plain(&d3, q - 22));
                // with the point after the first digit
                let mut d4 = vec![ds[0], b'.'];
                d4.extend_from_slice(&ds[1..]);
                d4.push(spell.exp_char);
                d4.extend(spell.exp_str(q + ds.len() as i64 - 1));
                c.check(&d4);
            }
        }
        c.done();
    });
}

/// HW: exact halfway expansions per binade x mantissa pattern (even radices: exact; odd
/// radices: truncated), with the perturbations of DESIGN.md §4.
pub fn fam_hw<C: Checker>(
    spell: &Spell,
    f: Fmt,
    level: u32,
    binade_step: u64,
    threads: usize,
    make: &(dyn Fn() -> C + Sync),
) {
    assert!(spell.base == spell.radix);
    let pats: Vec<u64> = match level {
        0 => vec![0, 1, (1u64 << f.mant_bits) - 1],
        1 => gen::mant_patterns(f.mant_bits, 0),
        _ => gen::mant_patterns(f.mant_bits, 1),
    };
    let mut items: Vec<u64> = Vec::new();
    let mut ef = 0;
    while ef < f.exp_max_field() {
        items.push(ef);
        ef += binade_step;
    }
    if *items.last().unwrap() != f.exp_max_field() - 1 {
        items.push(f.exp_max_field() - 1);
    }
    let maxd = digit_char(spell.radix - 1);
    par_items(&items, threads, |_, &ef| {
        let mut c = make();
        for &p in &pats {
            let bits = (ef << f.mant_bits) | p;
            let (m, e) = match f.classify(bits) {
                vkit::float::Class::Zero => (0, f.emin()),
                vkit::float::Class::Finite(m, e) => (m, e),
                _ => continue,
            };
            let (ds, q) = if spell.radix % 2 == 0 {
                gen::exact_expansion(2 * m + 1, e - 1, spell.radix).unwrap()
            } else {
                let (d, q, _) = gen::truncated_expansion(2 * m + 1, e - 1, spell.radix, 80);
                (d, q)
            };
            // exact halfway
            c.check(&spell.plain(&ds, q));
            // last digit +-1
            let big = Big::from_digits(&ds, spell.radix);
            let mut up = big.clone();
            up.add_small(1);
            c.check(&spell.plain(&up.to_digits(spell.radix), q));
            if !big.is_zero() {
                let dn = big.sub(&Big::from_u64(1));
                c.check(&spell.plain(&dn.to_digits(spell.radix), q));
            }
            // halfway followed by zeros and a one (sticky digit far away)
            let mut d2 = ds.clone();
            d2.extend(std::iter::repeat(b'0').take(400));
            d2.push(b'1');
            c.check(&spell.plain(&d2, q - 401));
            // (halfway - 1 unit) followed by max digits
            if !big.is_zero() {
                let dn = big.sub(&Big::from_u64(1));
                let mut d3 = dn.to_digits(spell.radix);
                d3.extend(std::iter::repeat(maxd).take(400));
                c.check(&spell.plain(&d3, q - 400));
            }
            // halfway as a long integer part (zero-padded to just below / at / above the digit caps
            // of the big-integer path: 114 digits for f32, 769 for f64) followed by a fraction that
            // is zero (tie), tiny (above) or, for halfway - 1 unit, all max digits (below)
            {
                let n0 = ds.len();
                let dn_digits = if big.is_zero() { None } else { Some(big.sub(&Big::from_u64(1)).to_digits(spell.radix)) };
                for total in [n0 + 1, 113, 114, 115, 120, 768, 769, 770, 800] {
                    if total <= n0 {
                        continue;
                    }
                    let p = total - n0;
                    let tail = |frac: &[u8]| {
                        let mut t: Vec<u8> = Vec::with_capacity(16);
                        t.push(b'.');
                        t.extend_from_slice(frac);
                        t.push(spell.exp_char);
                        t.extend(spell.exp_str(q - p as i64));
                        t
                    };
                    let mut base = ds.clone();
                    base.extend(std::iter::repeat(b'0').take(p));
                    for frac in [&b"0"[..], b"0001"] {
                        let mut t = base.clone();
                        t.extend(tail(frac));
                        c.check(&t);
                    }
                    if let Some(dd) = &dn_digits {
                        if dd.len() == n0 {
                            let mut t = dd.clone();
                            t.extend(std::iter::repeat(maxd).take(p));
                            t.extend(tail(&[maxd]));
                            c.check(&t);
                        }
                    }
                }
            }
            // truncations to k digits, with and without a trailing 1
            let n = ds.len();
            let mut ks: Vec<usize> = vec![15, 16, 17, 18, 19, 20, 21, 22, 38, 39, 40];
            for d in 0..5 {
                if n > d + 1 {
                    ks.push(n - 1 - d);
                }
            }
            for k in ks {
                if k == 0 || k >= n {
                    continue;
                }
                let qq = q + (n - k) as i64;
                c.check(&spell.plain(&ds[..k], qq));
                let mut t = ds[..k].to_vec();
                t.push(b'1');
                c.check(&spell.plain(&t, qq - 1));
                // written positionally with a point after the first digit
                let mut t = vec![ds[0], b'.'];
                t.extend_from_slice(&ds[1..k]);
                t.push(spell.exp_char);
                t.extend(spell.exp_str(qq + k as i64 - 1));
                c.check(&t);
            }
        }
        c.done();
    });
}

/// BD: boundary strings (decimal-like construction valid in any radix for the structural
/// items; numeric landmarks are produced by exact expansion).
pub fn fam_bd<C: Checker>(spell: &Spell, f: Fmt, make: &(dyn Fn() -> C + Sync)) {
    let mut c = make();
    let ec = spell.exp_char as char;
    let mut push = |s: String| c.check(s.as_bytes());
    // zeros
    for z in ["0", "0.0", ".0", "0.", "00", "-0", "+0", "-0.0", "0.000000000000000000000000000000000000000"] {
        push(z.to_string());
        for e in ["0", "1", "-1", "400", "-400", "99999999999999999999", "-99999999999999999999", "999999999999999999999999999999", "-999999999999999999999999999999", "+5"] {
            if e.bytes().all(|b| b == b'+' || b == b'-' || vkit::big::digit_value(b).map_or(false, |d| d < spell.exp_radix)) {
                push(format!("{z}{ec}{e}"));
            }
        }
    }
    // absurd exponents with non-zero mantissas
    for m in ["1", "1.5", "10", "0.1", "-1"] {
        if !m.bytes().all(|b| !b.is_ascii_digit() || ((b - b'0') as u32) < spell.radix) {
            continue;
        }
        for e in ["99999999999999999999", "-99999999999999999999", "999999999999999999999999999999", "-999999999999999999999999999999", "18446744073709551616", "-18446744073709551616", "9223372036854775808", "-9223372036854775808", "2147483648", "-2147483648", "268435456", "-268435456", "268435455"] {
            if e.bytes().all(|b| b == b'-' || ((b - b'0') as u32) < spell.exp_radix) {
                push(format!("{m}{ec}{e}"));
            }
        }
    }
    // long runs
    let one = "1";
    let maxd = (digit_char(spell.radix - 1) as char).to_string();
    for n in [1usize, 7, 8, 9, 15, 16, 17, 18, 19, 20, 21, 40, 100, 767, 768, 769, 770, 1100, 3000] {
        push(format!("{}{}", "0".repeat(n), one));
        push(format!("{}{}", one, "0".repeat(n)));
        push(format!("0.{}{}", "0".repeat(n), one));
        push(format!("{}.{}", one, "0".repeat(n)));
        push(maxd.repeat(n));
        push(format!("0.{}", maxd.repeat(n)));
        push(format!("{}.{}", maxd.repeat(n), maxd.repeat(n)));
        push(format!("{}{}{}-{}", maxd.repeat(n), ec, "", Big::from_u128(n as u128).to_digits(spell.exp_radix).iter().map(|&b| b as char).collect::<String>()));
        push(format!("0.{}{}{}{}", "0".repeat(n), one, ec, Big::from_u128(n as u128).to_digits(spell.exp_radix).iter().map(|&b| b as char).collect::<String>()));
        push(format!("{}{}{}-{}", one, "0".repeat(n), ec, Big::from_u128(n as u128).to_digits(spell.exp_radix).iter().map(|&b| b as char).collect::<String>()));
    }
    drop(push);
    // numeric landmarks via exact expansions (even radix) / truncated (odd radix)
    if spell.base == spell.radix {
        let landmarks: Vec<(u64, i64)> = {
            let mut v = Vec::new();
            let mb = f.mant_bits;
            let emin = f.emin();
            let (mmax, emax) = match f.classify(f.max_finite_bits()) {
                vkit::float::Class::Finite(m, e) => (m, e),
                _ => unreachable!(),
            };
            v.push((1, emin)); // min subnormal
            v.push((1, emin - 1)); // half of it (tie to zero)
            v.push((3, emin - 1)); // 1.5 min subnormal (tie to even = 2)
            v.push((1, emin - 2));
            v.push(((1 << mb) - 1, emin)); // max subnormal
            v.push((1 << mb, emin)); // min normal
            v.push(((1 << (mb + 1)) - 1, emin - 1)); // midpoint sub/normal border
            v.push((mmax, emax)); // max finite
            v.push((2 * mmax + 1, emax - 1)); // overflow midpoint
            v.push((mmax + 1, emax)); // 2^emax+..
            v.push(((1 << (mb + 1)) + 1, 0)); // 2^53+1
            v.push(((1 << (mb + 1)) - 1, 0));
            v.push(((1 << (mb + 2)) + 1, 0));
            v
        };
        for (k, s) in landmarks {
            let (ds, q, exact) = if spell.radix % 2 == 0 {
                let (d, q) = gen::exact_expansion(k, s, spell.radix).unwrap();
                (d, q, true)
            } else {
                gen::truncated_expansion(k, s, spell.radix, 120)
            };
            let _ = exact;
            c.check(&spell.plain(&ds, q));
            let big = Big::from_digits(&ds, spell.radix);
            let mut up = big.clone();
            up.add_small(1);
            c.check(&spell.plain(&up.to_digits(spell.radix), q));
            if !big.is_zero() {
                let dn = big.sub(&Big::from_u64(1));
                if !dn.is_zero() {
                    c.check(&spell.plain(&dn.to_digits(spell.radix), q));
                }
            }
            let mut neg = b"-".to_vec();
            neg.extend(spell.plain(&ds, q));
            c.check(&neg);
        }
    }
    c.done();
}

/// S(Σ, L): every string of <= L tokens; the checker skips ungrammatical ones.
pub fn fam_s<C: Checker>(alpha: &[&[u8]], depth: usize, threads: usize, rep: &Report, make: &(dyn Fn() -> C + Sync)) {
    // partition by the first two tokens
    let mut prefixes: Vec<Vec<u8>> = Vec::new();
    let mut c0 = make();
    c0.check(b"");
    let mut states: u64 = 1;
    for a in alpha {
        c0.check(a);
        states += 1;
        if depth >= 2 {
            for b in alpha {
                let mut p = a.to_vec();
                p.extend_from_slice(b);
                prefixes.push(p);
            }
        }
    }
    c0.done();
    let total = std::sync::atomic::AtomicU64::new(0);
    if depth >= 2 {
        par_items(&prefixes, threads, |_, p| {
            let mut c = make();
            let n = gen::for_each_string_under(alpha, p, depth - 2, &mut |s: &[u8]| c.check(s));
            total.fetch_add(n, std::sync::atomic::Ordering::Relaxed);
            c.done();
        });
    }
    states += total.load(std::sync::atomic::Ordering::Relaxed);
    let _ = (states, rep);
}

pub struct DecParams {
    pub s_depth: usize,
    pub me_digits: u32,
    pub me_variant_digits: u32,
    pub cf_per: usize,
    pub hw_level: u32,
    pub hw_binade_step: u64,
}

/// WRAP: significands m (at most the width of the float's mantissa, so eligible for the fast
/// paths) and powers k of the radix such that the 64-bit product m * radix^k wraps around 2^64 to
/// a value just above 0 or just below 2^64: unchecked / wrapping multiplications in the fast paths
/// then produce a plausible small product. Written as `m e (q0 + k)` for every base exponent q0
/// at which the fast paths are still considered.
pub fn fam_wrap<C: Checker>(spell: &Spell, f: Fmt, make: &(dyn Fn() -> C + Sync)) {
    let mut c = make();
    let r = spell.radix as u128;
    let mant_limit: u128 = 1u128 << (f.mant_bits + 1);
    let two64: u128 = 1u128 << 64;
    // odd part and power of two of the radix
    let a = (spell.radix as u64).trailing_zeros() as u128;
    let o = r >> a;
    let mut rk: u128 = 1; // radix^k, stops before exceeding 2^64
    let mut ok: u128 = 1; // o^k mod 2^64
    for k in 1..=40u32 {
        rk = match rk.checked_mul(r) {
            Some(v) if v < two64 => v,
            _ => break,
        };
        ok = (ok * o) % two64;
        let shift = a * k as u128; // radix^k = o^k * 2^shift
        if shift >= 64 {
            break;
        }
        let modulus: u128 = 1u128 << (64 - shift); // m matters modulo this
        // inverse of o^k modulo `modulus` (o odd): Newton iteration
        let mut inv: u128 = 1;
        for _ in 0..7 {
            inv = (inv * ((2 + modulus * 4 - (ok % modulus) * inv % modulus) % modulus)) % modulus;
        }
        debug_assert_eq!((ok % modulus) * inv % modulus, 1 % modulus);
        let mut found = 0;
        let mut s: u128 = 1;
        while found < 24 && s < 1 << 16 {
            for t in [s, modulus - s] {
                // m * o^k == t (mod modulus)  =>  m * radix^k == t * 2^shift (mod 2^64)
                let m0 = (t % modulus) * inv % modulus;
                let mut m = m0;
                while m < mant_limit && found < 24 {
                    if m > 0 && m * rk >= two64 {
                        found += 1;
                        let digits = Big::from_u128(m).to_digits(spell.radix);
                        for q0 in [0i64, 1, 5, 10, 15, 20, 22, 23] {
                            c.check(&spell.plain(&digits, q0 + k as i64));
                        }
                    }
                    m += modulus;
                    if modulus >= mant_limit {
                        break;
                    }
                }
            }
            s += 1;
        }
    }
    c.done();
}

/// Run all decimal families for one float type on one subject with the rounding checker.
pub fn run_decimal_families<T: Flt>(
    rep: &Report,
    cli: &Cli,
    sub: &Subject<T>,
    _g: &Grammar,
    p: &DecParams,
    prop: &'static str,
) {
    let spell = Spell::decimal();
    let th = cli.threads;
    let (qlo, qhi) = spell.exp_range(T::FMT, 8);
    let mk = |fam: &'static str, suffixes: bool| {
        let spell = spell.clone();
        let sub = sub.clone();
        move || {
            let mut c = RoundChecker::<T>::new(prop, rep, &sub, &spell, fam);
            c.partial_suffixes = suffixes;
            c
        }
    };
    let alpha: [&[u8]; 9] = [b"+", b"-", b"0", b"1", b"5", b"9", b".", b"e", b"E"];
    fam_s(&alpha, p.s_depth, th, rep, &mk("S", true));
    fam_me(&spell, p.me_digits, qlo - p.me_digits as i64, qhi, th, &mk("ME", false));
    fam_me_variants(&spell, p.me_variant_digits, qlo - 3, qhi, th, &mk("MEV", false));
    fam_cf(&spell, T::FMT, p.cf_per, qlo - 19, qhi, th, &mk("CF", false));
    fam_hw(&spell, T::FMT, p.hw_level, p.hw_binade_step, th, &mk("HW", false));
    fam_bd(&spell, T::FMT, &mk("BD", true));
    fam_wrap(&spell, T::FMT, &mk("WRAP", false));
}

/// Replay one violation key: `<type>|<entry>|<subject>|<hex input>`.
pub fn replay_case(
    rep: &Report,
    key: &str,
    sub64: &Subject<f64>,
    sub32: &Subject<f32>,
    g: &Grammar,
    _j: &mut Judge,
) {
    let parts: Vec<&str> = key.split('|').collect();
    if parts.len() != 4 {
        rep.machinery_error(format!("bad replay key {key}"));
        return;
    }
    let input = unhex(parts[3]);
    let spell = Spell { radix: g.radix, base: g.radix, exp_radix: g.exp_radix, exp_char: g.exp_chars[0] };
    // strip a partial-suffix if present: replay through the same checker on the grammatical part
    let mut s = input.clone();
    while !s.is_empty() && parse_full(g, &s).is_none() {
        s.pop();
    }
    match parts[0] {
        "f64" => {
            let mut c = RoundChecker::<f64>::new("replay", rep, sub64, &spell, "replay");
            c.partial_suffixes = true;
            c.check(&s);
            c.done();
        }
        "f32" => {
            let mut c = RoundChecker::<f32>::new("replay", rep, sub32, &spell, "replay");
            c.partial_suffixes = true;
            c.check(&s);
            c.done();
        }
        _ => rep.machinery_error(format!("bad replay key {key}")),
    }
    println!("replayed input: {}", show_trunc(&input));
}

// ---------------------------------------------------------------------------------------------
// radix subjects (const-generic FORMAT per radix) and mixed-base formats
// ---------------------------------------------------------------------------------------------

#[cfg(feature = "power-of-two")]
pub mod radixsub {
    use super::*;
    use core::num::NonZeroU8;
    use lexical_core::{NumberFormatBuilder, ParseFloatOptions};

    macro_rules! radix_subject_fn {
        ($($r:literal)*) => {
            /// Subject for `from_radix(radix)` with `ParseFloatOptions::from_radix(radix)`.
            pub fn radix_subject<T: Flt>(radix: u32, lossy: bool) -> Option<(Subject<T>, Spell)> {
                match radix {
                    $($r => {
                        const F: u128 = NumberFormatBuilder::from_radix($r);
                        const O: ParseFloatOptions = ParseFloatOptions::from_radix($r);
                        const OL: ParseFloatOptions = ParseFloatOptions::from_radix($r).rebuild().lossy(true).build_unchecked();
                        #[inline(never)]
                        fn p<T: Flt>(b: &[u8]) -> PRes<T> { lexical_core::parse_with_options::<T, F>(b, &O) }
                        #[inline(never)]
                        fn pp<T: Flt>(b: &[u8]) -> PRes<(T, usize)> { lexical_core::parse_partial_with_options::<T, F>(b, &O) }
                        #[inline(never)]
                        fn pl<T: Flt>(b: &[u8]) -> PRes<T> { lexical_core::parse_with_options::<T, F>(b, &OL) }
                        #[inline(never)]
                        fn ppl<T: Flt>(b: &[u8]) -> PRes<(T, usize)> { lexical_core::parse_partial_with_options::<T, F>(b, &OL) }
                        let spell = Spell { radix: $r, base: $r, exp_radix: $r, exp_char: if $r >= 15 { b'^' } else { b'e' } };
                        let name = concat!("radix", stringify!($r));
                        Some(if lossy {
                            (Subject { name, parse: pl::<T>, parse_partial: ppl::<T>, lossy: true }, spell)
                        } else {
                            (Subject { name, parse: p::<T>, parse_partial: pp::<T>, lossy: false }, spell)
                        })
                    })*
                    _ => None,
                }
            }
        };
    }

    #[cfg(feature = "radix")]
    radix_subject_fn!(2 3 4 5 6 7 8 9 10 11 12 13 14 15 16 17 18 19 20 21 22 23 24 25 26 27 28 29 30 31 32 33 34 35 36);
    #[cfg(not(feature = "radix"))]
    radix_subject_fn!(2 4 8 10 16 32);

    macro_rules! mixed_subject_fn {
        ($(($m:literal, $b:literal, $x:literal, $c:literal))*) => {
            /// Mixed-base formats: (mantissa radix, exponent base, exponent-digit radix).
            pub fn mixed_subjects<T: Flt>(lossy: bool) -> Vec<(Subject<T>, Spell)> {
                let mut v = Vec::new();
                $({
                    const F: u128 = NumberFormatBuilder::new()
                        .mantissa_radix($m)
                        .exponent_base(NonZeroU8::new($b))
                        .exponent_radix(NonZeroU8::new($x))
                        .build_strict();
                    const O: ParseFloatOptions = ParseFloatOptions::builder().exponent($c).build_unchecked();
                    const OL: ParseFloatOptions = ParseFloatOptions::builder().exponent($c).lossy(true).build_unchecked();
                    #[inline(never)]
                    fn p<T: Flt>(b: &[u8]) -> PRes<T> { lexical_core::parse_with_options::<T, F>(b, &O) }
                    #[inline(never)]
                    fn pp<T: Flt>(b: &[u8]) -> PRes<(T, usize)> { lexical_core::parse_partial_with_options::<T, F>(b, &O) }
                    #[inline(never)]
                    fn pl<T: Flt>(b: &[u8]) -> PRes<T> { lexical_core::parse_with_options::<T, F>(b, &OL) }
                    #[inline(never)]
                    fn ppl<T: Flt>(b: &[u8]) -> PRes<(T, usize)> { lexical_core::parse_partial_with_options::<T, F>(b, &OL) }
                    let spell = Spell { radix: $m, base: $b, exp_radix: $x, exp_char: $c };
                    let name = concat!("mixed", stringify!($m), "_", stringify!($b), "_", stringify!($x));
                    v.push(if lossy {
                        (Subject { name, parse: pl::<T>, parse_partial: ppl::<T>, lossy: true }, spell)
                    } else {
                        (Subject { name, parse: p::<T>, parse_partial: pp::<T>, lossy: false }, spell)
                    });
                })*
                v
            }
        };
    }

    mixed_subject_fn!(
        (4, 2, 10, b'p') (4, 2, 4, b'p') (4, 2, 2, b'p')
        (8, 2, 10, b'p') (8, 2, 8, b'p') (8, 2, 2, b'p')
        (16, 2, 10, b'p') (16, 2, 16, b'p') (16, 2, 2, b'p')
        (32, 2, 10, b'^') (32, 2, 32, b'^') (32, 2, 2, b'^')
        (16, 4, 10, b'p') (16, 4, 16, b'p') (16, 4, 4, b'p')
    );
}

/// MIXED family: mantissa radix 2^k, exponent base 2 (or 4): short significands with the point
/// at 0..=2 fractional positions x every exponent, and exact halfway numerals per binade.
pub fn fam_mixed<C: Checker>(
    spell: &Spell,
    f: Fmt,
    d: u32,
    hw_level: u32,
    threads: usize,
    make: &(dyn Fn() -> C + Sync),
) {
    let (qlo, qhi) = spell.exp_range(f, 12);
    let qs: Vec<i64> = (qlo..=qhi).collect();
    let wmax = (spell.radix as u64).pow(d);
    par_items(&qs, threads, |_, &q| {
        let mut c = make();
        let es = spell.exp_str(q);
        for w in 1..wmax {
            let ds = to_numeral(w, spell.radix);
            for frac in 0..=2usize.min(ds.len()) {
                let mut v = ds[..ds.len() - frac].to_vec();
                if frac > 0 {
                    v.push(b'.');
                    v.extend_from_slice(&ds[ds.len() - frac..]);
                }
                v.push(spell.exp_char);
                v.extend_from_slice(&es);
                c.check(&v);
            }
        }
        c.done();
    });
    // halfway numerals
    let pats: Vec<u64> = match hw_level {
        0 => vec![0, 1, (1u64 << f.mant_bits) - 1],
        _ => gen::mant_patterns(f.mant_bits, 0),
    };
    let bits_per_base = spell.base.trailing_zeros() as i64;
    let efs: Vec<u64> = (0..f.exp_max_field()).collect();
    let maxd = digit_char(spell.radix - 1);
    par_items(&efs, threads, |_, &ef| {
        let mut c = make();
        for &p in &pats {
            let bits = (ef << f.mant_bits) | p;
            let (m, e) = match f.classify(bits) {
                vkit::float::Class::Zero => (0, f.emin()),
                vkit::float::Class::Finite(m, e) => (m, e),
                _ => continue,
            };
            // halfway = (2m+1) * 2^(e-1) = K * base^x with K = (2m+1) << j, (e-1-j) divisible by bits_per_base
            let s = e - 1;
            let j = s.rem_euclid(bits_per_base);
            let x = (s - j) / bits_per_base;
            let k = Big::from_u64(2 * m + 1).shl(j as u64);
            let ds = k.to_digits(spell.radix);
            c.check(&spell.plain(&ds, x));
            // above: K.000...1
            let mut v = ds.clone();
            v.push(b'.');
            v.extend(std::iter::repeat(b'0').take(300));
            v.push(b'1');
            v.push(spell.exp_char);
            v.extend(spell.exp_str(x));
            c.check(&v);
            // below: (K-1).fff...f
            let km = k.sub(&Big::from_u64(1));
            let mut v = km.to_digits(spell.radix);
            v.push(b'.');
            v.extend(std::iter::repeat(maxd).take(300));
            v.push(spell.exp_char);
            v.extend(spell.exp_str(x));
            c.check(&v);
            // the float itself and its successor, written with extra zero digits
            let kf = Big::from_u64(m).shl((e.rem_euclid(bits_per_base)) as u64);
            if !kf.is_zero() {
                let xf = (e - e.rem_euclid(bits_per_base)) / bits_per_base;
                let mut v = kf.to_digits(spell.radix);
                v.extend_from_slice(b".000");
                v.push(spell.exp_char);
                v.extend(spell.exp_str(xf));
                c.check(&v);
            }
        }
        c.done();
    });
}


// ---------------------------------------------------------------------------------------------
// C19: lossy parsing changes only precision
// ---------------------------------------------------------------------------------------------

pub struct LossyChecker<'a, T: Flt> {
    pub rep: &'a Report,
    pub sub: Subject<T>,
    pub subl: Subject<T>,
    pub g: Grammar,
    pub judge: Judge,
    pub fam: Fam<'a>,
    pub decimal: bool,
    _t: PhantomData<T>,
}

impl<'a, T: Flt> LossyChecker<'a, T> {
    pub fn new(rep: &'a Report, sub: &Subject<T>, subl: &Subject<T>, spell: &Spell, fam: &str) -> Self {
        LossyChecker {
            rep,
            sub: sub.clone(),
            subl: subl.clone(),
            g: spell.grammar(),
            judge: Judge::new(spell.radix, spell.base),
            fam: Fam::new(rep, &format!("{}:{}:{}", T::NAME, sub.name, fam)),
            decimal: spell.radix == 10 && spell.base == 10,
            _t: PhantomData,
        }
    }
    fn show<V: std::fmt::Debug>(r: &Result<PRes<V>, String>) -> String {
        match r {
            Ok(Ok(v)) => format!("Ok({:?})", v),
            Ok(Err(e)) => format!("Err({})", show_err(e)),
            Err(p) => format!("panic({})", p),
        }
    }
}

impl<'a, T: Flt> Checker for LossyChecker<'a, T> {
    fn check(&mut self, s: &[u8]) {
        self.fam.states += 1;
        self.fam.cases += 1;
        let (sub, subl) = (self.sub.clone(), self.subl.clone());
        // every string (grammatical or not): same acceptance, same errors, same counts
        self.fam.calls += 4;
        let a = guarded(|| (sub.parse)(s)).map(|r| r.map(|v| v.to_bits64()));
        let b = guarded(|| (subl.parse)(s)).map(|r| r.map(|v| v.to_bits64()));
        let pa = guarded(|| (sub.parse_partial)(s)).map(|r| r.map(|(v, n)| (v.to_bits64(), n)));
        let pb = guarded(|| (subl.parse_partial)(s)).map(|r| r.map(|(v, n)| (v.to_bits64(), n)));
        let key = |e: &str| format!("{}|{}|{}|{}", T::NAME, e, sub.name, hex(s));
        let same_shape = match (&a, &b) {
            (Ok(Ok(_)), Ok(Ok(_))) => true,
            (Ok(Err(x)), Ok(Err(y))) => x == y,
            _ => false,
        };
        if !same_shape {
            self.rep.violation(key("parse"), format!("C19 [{}] {:?}: lossless {} vs lossy {}", sub.name, show_trunc(s), Self::show(&a), Self::show(&b)));
            return;
        }
        let same_partial = match (&pa, &pb) {
            (Ok(Ok((_, n))), Ok(Ok((_, m)))) => n == m,
            (Ok(Err(x)), Ok(Err(y))) => x == y,
            _ => false,
        };
        if !same_partial {
            self.rep.violation(key("parse_partial"), format!("C19 [{}] {:?}: lossless partial {} vs lossy partial {}", sub.name, show_trunc(s), Self::show(&pa), Self::show(&pb)));
            return;
        }
        let (va, vb) = match (&a, &b) {
            (Ok(Ok(x)), Ok(Ok(y))) => (*x, *y),
            _ => {
                self.fam.bump("rejected_by_both");
                return;
            }
        };
        // complete and partial lossy values agree when the whole input is consumed
        if let Ok(Ok((pv, n))) = &pb {
            if *n == s.len() && *pv != vb {
                self.rep.violation(key("parse_partial"), format!("C19 [{}] {:?}: lossy parse {:#x} but lossy parse_partial {:#x}", sub.name, show_trunc(s), vb, pv));
                return;
            }
        }
        let f = T::FMT;
        if f.is_nan(va) || f.is_nan(vb) {
            if f.is_nan(va) != f.is_nan(vb) {
                self.rep.violation(key("parse"), format!("C19 [{}] {:?}: NaN-ness differs", sub.name, show_trunc(s)));
            }
            return;
        }
        self.fam.nontrivial += 1;
        if va != vb {
            self.fam.bump("lossy_differs");
        }
        // literal zeros unchanged (infinity *strings* are covered by C15; an input that rounds to
        // infinity may come back as the largest finite float: that is its neighbour)
        if let Some(x) = parse_full(&self.g, s) {
            if x.digits.iter().all(|&c| c == b'0') && va != vb {
                self.rep.violation(key("parse"), format!("C19 [{}] {:?}: literal zero changed by lossy: {:#x} vs {:#x}", sub.name, show_trunc(s), va, vb));
                return;
            }
        }
        // an input that the lossless parser rounds to zero stays zero ("zero ... unchanged")
        if f.abs(va) == 0 && f.abs(vb) != 0 {
            self.rep.violation(key("parse"), format!("C19 [{}] {:?}: the lossless result is zero but lossy gives {:#x}", sub.name, show_trunc(s), vb));
            return;
        }
        // within one ULP of the correctly rounded value (exact arithmetic)
        if let Some(x) = parse_full(&self.g, s) {
            if self.fam.want_sample() {
                self.rep.sample(format!("{} lossy {} -> {:#x} (lossless {:#x})", self.fam.name, show_trunc(s), vb, va));
            }
            match self.judge.ulp_distance(f, &x, vb, 1) {
                Some(_) => {}
                None => {
                    let exp = self.judge.expected_bits(f, &x);
                    self.rep.violation(key("parse"), format!("C19 [{}] {:?}: lossy {:#x} is more than 1 ULP from the correctly rounded {:#x}", sub.name, show_trunc(s), vb, exp));
                    return;
                }
            }
            // documented exact fast path: short significand, small exponent => unchanged
            if self.decimal {
                let nd = x.digits.iter().skip_while(|&&c| c == b'0').count();
                let e = x.exp - x.frac_len as i128;
                let (maxd, maxe) = if f.mant_bits == 52 { (15, 22) } else { (7, 10) };
                if nd <= maxd && e.abs() <= maxe && (x.exp - x.frac_len as i128 + nd as i128).abs() <= maxe {
                    self.fam.bump("fast_path_precondition");
                    if va != vb {
                        self.rep.violation(key("parse"), format!("C19 [{}] {:?}: exact fast-path input changed by lossy: {:#x} vs {:#x}", sub.name, show_trunc(s), va, vb));
                    }
                }
            }
        }
    }
    fn done(self) {
        self.fam.finish();
    }
}
