//! Float format catalogue: per FORMAT constant a row of monomorphised entry points
//! (`#[inline(never)]` so that each format is compiled once and in parallel).

use crate::common::Flt;
use lexical_core::{ParseFloatOptions, WriteFloatOptions};

pub type PRes<T> = Result<T, lexical_core::Error>;

pub struct FloatFmt<T> {
    pub name: &'static str,
    pub format: u128,
    pub radix: u32,
    pub base: u32,
    pub exp_radix: u32,
    /// flags that change what the writer emits / the parser requires
    pub required_exponent_notation: bool,
    pub no_exponent_notation: bool,
    pub required_mantissa_sign: bool,
    pub required_exponent_sign: bool,
    pub no_positive_mantissa_sign: bool,
    pub no_special: bool,
    pub sep: u8,
    pub prefix: u8,
    pub suffix: u8,
    pub write: fn(T, &mut [u8], &WriteFloatOptions) -> usize,
    pub bufsize: fn(&WriteFloatOptions) -> usize,
    pub parse: fn(&[u8], &ParseFloatOptions) -> PRes<T>,
    pub parse_partial: fn(&[u8], &ParseFloatOptions) -> PRes<(T, usize)>,
}

impl<T> Clone for FloatFmt<T> {
    fn clone(&self) -> Self {
        FloatFmt { ..*self }
    }
}
impl<T> Copy for FloatFmt<T> {}

impl<T> FloatFmt<T> {
    /// exponent character that is not a digit of the mantissa / exponent radix
    pub fn exp_char(&self) -> u8 {
        if self.radix != self.base {
            if self.radix >= 26 || self.exp_radix >= 26 { b'^' } else { b'p' }
        } else if self.radix >= 15 {
            b'^'
        } else {
            b'e'
        }
    }
}

#[macro_export]
macro_rules! float_fmt {
    ($t:ty, $name:expr, $f:expr) => {{
        const F: u128 = $f;
        #[inline(never)]
        fn w<T: $crate::common::Flt>(v: T, b: &mut [u8], o: &lexical_core::WriteFloatOptions) -> usize {
            let p0 = b.as_ptr();
            let out = lexical_core::write_with_options::<T, F>(v, b, o);
            // usize::MAX signals "returned slice does not start at the buffer start"
            if out.as_ptr() != p0 { usize::MAX } else { out.len() }
        }
        #[inline(never)]
        fn bs<T: $crate::common::Flt>(o: &lexical_core::WriteFloatOptions) -> usize {
            o.buffer_size_const::<T, F>()
        }
        #[inline(never)]
        fn p<T: $crate::common::Flt>(b: &[u8], o: &lexical_core::ParseFloatOptions) -> $crate::fmtcat::PRes<T> {
            lexical_core::parse_with_options::<T, F>(b, o)
        }
        #[inline(never)]
        fn pp<T: $crate::common::Flt>(b: &[u8], o: &lexical_core::ParseFloatOptions) -> $crate::fmtcat::PRes<(T, usize)> {
            lexical_core::parse_partial_with_options::<T, F>(b, o)
        }
        let nf = lexical_core::NumberFormat::<F> {};
        $crate::fmtcat::FloatFmt::<$t> {
            name: $name,
            format: F,
            radix: nf.mantissa_radix(),
            base: nf.exponent_base(),
            exp_radix: nf.exponent_radix(),
            required_exponent_notation: nf.required_exponent_notation(),
            no_exponent_notation: nf.no_exponent_notation(),
            required_mantissa_sign: nf.required_mantissa_sign(),
            required_exponent_sign: nf.required_exponent_sign(),
            no_positive_mantissa_sign: nf.no_positive_mantissa_sign(),
            no_special: nf.no_special(),
            sep: nf.digit_separator(),
            prefix: nf.base_prefix(),
            suffix: nf.base_suffix(),
            write: w::<$t>,
            bufsize: bs::<$t>,
            parse: p::<$t>,
            parse_partial: pp::<$t>,
        }
    }};
}

pub fn standard<T: Flt>() -> FloatFmt<T> {
    float_fmt!(T, "STANDARD", lexical_core::format::STANDARD)
}

#[cfg(feature = "power-of-two")]
macro_rules! radix_list {
    ($t:ty, $v:ident, $($r:literal)*) => {
        $( $v.push(float_fmt!($t, concat!("radix", stringify!($r)), lexical_core::NumberFormatBuilder::from_radix($r))); )*
    };
}

/// `from_radix(r)` for every radix of the feature set (including 10).
pub fn radix_formats<T: Flt>() -> Vec<FloatFmt<T>> {
    #[allow(unused_mut)]
    let mut v: Vec<FloatFmt<T>> = Vec::new();
    #[cfg(feature = "radix")]
    radix_list!(T, v, 2 3 4 5 6 7 8 9 10 11 12 13 14 15 16 17 18 19 20 21 22 23 24 25 26 27 28 29 30 31 32 33 34 35 36);
    #[cfg(all(feature = "power-of-two", not(feature = "radix")))]
    radix_list!(T, v, 2 4 8 10 16 32);
    #[cfg(not(feature = "power-of-two"))]
    v.push(standard::<T>());
    v
}

#[cfg(feature = "power-of-two")]
macro_rules! mixed_list {
    ($t:ty, $v:ident, $(($m:literal, $b:literal, $x:literal))*) => {
        $( $v.push(float_fmt!($t, concat!("mixed", stringify!($m), "_", stringify!($b), "_", stringify!($x)),
            lexical_core::NumberFormatBuilder::new()
                .mantissa_radix($m)
                .exponent_base(core::num::NonZeroU8::new($b))
                .exponent_radix(core::num::NonZeroU8::new($x))
                .build_strict())); )*
    };
}

/// The documented mixed-base pairs x exponent-digit radix {10, mantissa radix, base}.
pub fn mixed_formats<T: Flt>() -> Vec<FloatFmt<T>> {
    #[allow(unused_mut)]
    let mut v: Vec<FloatFmt<T>> = Vec::new();
    #[cfg(feature = "power-of-two")]
    mixed_list!(T, v,
        (4, 2, 10) (4, 2, 4) (4, 2, 2)
        (8, 2, 10) (8, 2, 8) (8, 2, 2)
        (16, 2, 10) (16, 2, 16) (16, 2, 2)
        (32, 2, 10) (32, 2, 32) (32, 2, 2)
        (16, 4, 10) (16, 4, 16) (16, 4, 4));
    v
}

#[cfg(feature = "format")]
macro_rules! writer_list {
    ($t:ty, $v:ident, $(($name:expr, $f:expr))*) => {
        $( $v.push(float_fmt!($t, $name, $f)); )*
    };
}

/// Formats whose flags change what the float writer emits (decimal; plus radix variants with
/// the radix feature).
pub fn writer_formats<T: Flt>() -> Vec<FloatFmt<T>> {
    #[allow(unused_mut)]
    let mut v: Vec<FloatFmt<T>> = Vec::new();
    #[cfg(feature = "format")]
    {
        use lexical_core::NumberFormatBuilder as B;
        writer_list!(T, v,
            ("w_required_mantissa_sign", B::new().required_mantissa_sign(true).build_strict())
            ("w_required_exponent_sign", B::new().required_exponent_sign(true).build_strict())
            ("w_required_exponent_notation", B::new().required_exponent_notation(true).build_strict())
            ("w_no_exponent_notation", B::new().no_exponent_notation(true).build_strict())
            ("w_no_exponent_without_fraction", B::new().no_exponent_without_fraction(true).build_strict())
            ("w_all_signs_expnot", B::new().required_mantissa_sign(true).required_exponent_sign(true).required_exponent_notation(true).build_strict())
            ("w_noexpnofrac_reqdigits", B::new().no_exponent_without_fraction(true).required_digits(true).build_strict())
            ("w_reqdigits_reqexpnot", B::new().required_digits(true).required_exponent_notation(true).build_strict())
        );
    }
    #[cfg(all(feature = "format", feature = "radix"))]
    {
        use core::num::NonZeroU8 as N;
        use lexical_core::NumberFormatBuilder as B;
        writer_list!(T, v,
            ("w2_required_exponent_notation", B::new().mantissa_radix(2).exponent_base(N::new(2)).exponent_radix(N::new(2)).required_exponent_notation(true).build_strict())
            ("w2_no_exponent_notation", B::new().mantissa_radix(2).exponent_base(N::new(2)).exponent_radix(N::new(2)).no_exponent_notation(true).build_strict())
            ("w16_required_signs", B::new().mantissa_radix(16).exponent_base(N::new(16)).exponent_radix(N::new(16)).required_mantissa_sign(true).required_exponent_sign(true).build_strict())
            ("w16p_required_exponent_notation", B::new().mantissa_radix(16).exponent_base(N::new(2)).exponent_radix(N::new(10)).required_exponent_notation(true).build_strict())
            ("w3_required_exponent_notation", B::new().mantissa_radix(3).exponent_base(N::new(3)).exponent_radix(N::new(3)).required_exponent_notation(true).build_strict())
            ("w3_no_exponent_notation", B::new().mantissa_radix(3).exponent_base(N::new(3)).exponent_radix(N::new(3)).no_exponent_notation(true).build_strict())
            ("w36_required_signs", B::new().mantissa_radix(36).exponent_base(N::new(36)).exponent_radix(N::new(36)).required_mantissa_sign(true).required_exponent_sign(true).build_strict())
        );
    }
    v
}
