//! Integer types under test and radix dispatch (const-generic FORMAT per radix).

#[allow(unused_imports)]
use lexical_core::{FormattedSize, NumberFormatBuilder, ParseIntegerOptions, WriteIntegerOptions};
use vkit::intref::{IVal, IntTy};

pub trait Int:
    Copy
    + Send
    + Sync
    + 'static
    + std::fmt::Display
    + lexical_core::FromLexical
    + lexical_core::ToLexical
    + lexical_core::FromLexicalWithOptions<Options = ParseIntegerOptions>
    + lexical_core::ToLexicalWithOptions<Options = WriteIntegerOptions>
    + FormattedSize
{
    const TY: IntTy;
    const NAME: &'static str;
    fn to_ival(self) -> IVal;
    /// None if the value does not fit.
    fn from_ival(v: IVal) -> Option<Self>;
}

macro_rules! int_impl {
    ($($t:ident $bits:literal $signed:literal;)*) => {$(
        impl Int for $t {
            const TY: IntTy = IntTy { bits: $bits, signed: $signed };
            const NAME: &'static str = stringify!($t);
            fn to_ival(self) -> IVal {
                if $signed { IVal::from_i128(self as i128) } else { IVal::from_u128(self as u128) }
            }
            fn from_ival(v: IVal) -> Option<Self> {
                if v.mag > Self::TY.max_mag(v.neg && v.mag != 0) {
                    return None;
                }
                if v.neg { Some((v.mag as i128).wrapping_neg() as $t) } else { Some(v.mag as $t) }
            }
        }
    )*};
}

int_impl! {
    u8 8 false; u16 16 false; u32 32 false; u64 64 false; u128 128 false; usize 64 false;
    i8 8 true; i16 16 true; i32 32 true; i64 64 true; i128 128 true; isize 64 true;
}

/// Radices supported by the feature set this binary was built with.
pub fn supported_radices() -> Vec<u32> {
    if cfg!(feature = "radix") {
        (2..=36).collect()
    } else if cfg!(feature = "power-of-two") {
        vec![2, 4, 8, 10, 16, 32]
    } else {
        vec![10]
    }
}

#[cfg(feature = "radix")]
macro_rules! radix_dispatch {
    ($radix:expr, $f:ident, $body:expr) => {
        radix_dispatch!(@arms $radix, $f, $body, 2 3 4 5 6 7 8 9 10 11 12 13 14 15 16 17 18 19 20 21 22 23 24 25 26 27 28 29 30 31 32 33 34 35 36)
    };
    (@arms $radix:expr, $f:ident, $body:expr, $($r:literal)*) => {
        match $radix {
            $($r => { const $f: u128 = NumberFormatBuilder::from_radix($r); $body })*
            _ => panic!("unsupported radix"),
        }
    };
}

#[cfg(all(feature = "power-of-two", not(feature = "radix")))]
macro_rules! radix_dispatch {
    ($radix:expr, $f:ident, $body:expr) => {
        radix_dispatch!(@arms $radix, $f, $body, 2 4 8 10 16 32)
    };
    (@arms $radix:expr, $f:ident, $body:expr, $($r:literal)*) => {
        match $radix {
            $($r => { const $f: u128 = NumberFormatBuilder::from_radix($r); $body })*
            _ => panic!("unsupported radix"),
        }
    };
}

#[cfg(not(feature = "power-of-two"))]
macro_rules! radix_dispatch {
    ($radix:expr, $f:ident, $body:expr) => {
        match $radix {
            10 => { const $f: u128 = lexical_core::format::STANDARD; $body }
            _ => panic!("unsupported radix"),
        }
    };
}

pub const WOPTS: WriteIntegerOptions = WriteIntegerOptions::new();

#[inline(never)]
pub fn write_radix<'a, T: Int>(v: T, radix: u32, buf: &'a mut [u8]) -> &'a mut [u8] {
    radix_dispatch!(radix, F, lexical_core::write_with_options::<T, F>(v, buf, &WOPTS))
}

#[inline(never)]
pub fn parse_radix<T: Int>(s: &[u8], radix: u32, o: &ParseIntegerOptions) -> Result<T, lexical_core::Error> {
    radix_dispatch!(radix, F, lexical_core::parse_with_options::<T, F>(s, o))
}

#[inline(never)]
pub fn parse_partial_radix<T: Int>(s: &[u8], radix: u32, o: &ParseIntegerOptions) -> Result<(T, usize), lexical_core::Error> {
    radix_dispatch!(radix, F, lexical_core::parse_partial_with_options::<T, F>(s, o))
}

pub fn buffer_size_radix<T: Int>(radix: u32) -> usize {
    radix_dispatch!(radix, F, WOPTS.buffer_size_const::<T, F>())
}


/// Same radix, format additionally requires a mantissa sign (`+` for non-negative values).
#[cfg(feature = "format")]
macro_rules! radix_dispatch_plus {
    ($radix:expr, $f:ident, $body:expr) => {
        radix_dispatch_plus!(@arms $radix, $f, $body, 2 3 4 5 6 7 8 9 10 11 12 13 14 15 16 17 18 19 20 21 22 23 24 25 26 27 28 29 30 31 32 33 34 35 36)
    };
    (@arms $radix:expr, $f:ident, $body:expr, $($r:literal)*) => {
        match $radix {
            $($r if supported_radices().contains(&$r) => {
                const $f: u128 = plus_format($r);
                $body
            })*
            _ => panic!("unsupported radix"),
        }
    };
}

#[cfg(feature = "format")]
const fn plus_format(radix: u8) -> u128 {
    #[cfg(feature = "power-of-two")]
    {
        NumberFormatBuilder::new().radix(radix).required_mantissa_sign(true).build_unchecked()
    }
    #[cfg(not(feature = "power-of-two"))]
    {
        let _ = radix;
        NumberFormatBuilder::new().required_mantissa_sign(true).build_unchecked()
    }
}

#[cfg(feature = "format")]
#[inline(never)]
pub fn write_radix_plus<'a, T: Int>(v: T, radix: u32, buf: &'a mut [u8]) -> &'a mut [u8] {
    radix_dispatch_plus!(radix, F, lexical_core::write_with_options::<T, F>(v, buf, &WOPTS))
}

#[cfg(feature = "format")]
pub fn buffer_size_radix_plus<T: Int>(radix: u32) -> usize {
    radix_dispatch_plus!(radix, F, WOPTS.buffer_size_const::<T, F>())
}

/// Call `f` once per integer type.
#[macro_export]
macro_rules! for_each_int_type {
    ($f:ident, $($arg:expr),*) => {
        $f::<u8>($($arg),*); $f::<u16>($($arg),*); $f::<u32>($($arg),*); $f::<u64>($($arg),*);
        $f::<u128>($($arg),*); $f::<usize>($($arg),*); $f::<i8>($($arg),*); $f::<i16>($($arg),*);
        $f::<i32>($($arg),*); $f::<i64>($($arg),*); $f::<i128>($($arg),*); $f::<isize>($($arg),*);
    };
}

/// PAIRS: every pair of adjacent digits (a, b) at every position of an all-ones numeral of every
/// length, and the numerals 123..., ...321 of every length: every entry of the digit-pair tables
/// at every position the wide-type code paths can reach.
pub fn pair_values<T: Int>(radix: u32) -> Vec<IVal> {
    let max = T::TY.max_mag(false);
    let r = radix as u128;
    let mut out: Vec<u128> = Vec::new();
    let mut ones: Vec<u128> = Vec::new(); // ones[l] = 11..1 (l digits)
    let mut pows: Vec<u128> = vec![1];
    let mut acc: u128 = 0;
    loop {
        ones.push(acc);
        match acc.checked_mul(r).and_then(|x| x.checked_add(1)) {
            Some(n) if n <= max => acc = n,
            _ => break,
        }
        match pows.last().unwrap().checked_mul(r) {
            Some(p) => pows.push(p),
            None => break,
        }
    }
    for l in 2..ones.len() {
        let base = ones[l];
        for pos in 0..l - 1 {
            // replace digits at pos+1, pos (both 1) by (a, b)
            let cleared = base - pows[pos] - pows[pos + 1];
            for a in 0..r {
                if pos + 2 == l && a == 0 {
                    continue; // keep the length
                }
                for b in 0..r {
                    if let Some(v) = (a * pows[pos + 1]).checked_add(b * pows[pos]).and_then(|x| x.checked_add(cleared)) {
                        if v <= max {
                            out.push(v);
                        }
                    }
                }
            }
        }
    }
    // ascending / descending digit patterns of every length
    for l in 1..ones.len() {
        let (mut up, mut down) = (0u128, 0u128);
        let mut ok = true;
        for i in 0..l {
            let d_up = (i as u128 % (r - 1)) + 1;
            let d_down = ((l - 1 - i) as u128 % (r - 1)) + 1;
            match (up.checked_mul(r).and_then(|x| x.checked_add(d_up)), down.checked_mul(r).and_then(|x| x.checked_add(d_down))) {
                (Some(u), Some(d)) => {
                    up = u;
                    down = d;
                }
                _ => {
                    ok = false;
                    break;
                }
            }
        }
        if ok {
            for v in [up, down] {
                if v <= max {
                    out.push(v);
                }
            }
        }
    }
    out.sort_unstable();
    out.dedup();
    let mut res: Vec<IVal> = out.iter().map(|&m| IVal { neg: false, mag: m }).collect();
    if T::TY.signed {
        let nmax = T::TY.max_mag(true);
        res.extend(out.iter().step_by(3).filter(|&&m| m != 0 && m <= nmax).map(|&m| IVal { neg: true, mag: m }));
    }
    res
}

