//! Shared harness glue between the explorer binaries and lexical's public API.
pub mod cat;
pub mod common;
pub mod crash;
#[cfg(all(feature = "format", feature = "catalogue"))]
pub mod gen;
pub mod floatfam;
pub mod optfam;
pub mod fmtcat;
pub mod intglue;
pub mod valfam;
