//! Shared harness glue between the explorer binaries and lexical's public API.
pub mod common;
pub mod floatfam;
pub mod fmtcat;
pub mod intglue;
pub mod valfam;
