//! OPT_w: write-option sets (DESIGN.md §4).

use core::num::{NonZeroI32, NonZeroUsize};
use lexical_core::write_float_options::RoundMode;
use lexical_core::WriteFloatOptions;

#[derive(Clone, Debug)]
pub struct WOpt {
    pub max: Option<usize>,
    pub min: Option<usize>,
    pub truncate: bool,
    pub trim: bool,
    pub pos_break: Option<i32>,
    pub neg_break: Option<i32>,
    pub point: u8,
    pub exponent: u8,
}

impl WOpt {
    pub fn build(&self) -> Option<WriteFloatOptions> {
        WriteFloatOptions::builder()
            .max_significant_digits(self.max.and_then(NonZeroUsize::new))
            .min_significant_digits(self.min.and_then(NonZeroUsize::new))
            .round_mode(if self.truncate { RoundMode::Truncate } else { RoundMode::Round })
            .trim_floats(self.trim)
            .positive_exponent_break(self.pos_break.and_then(NonZeroI32::new))
            .negative_exponent_break(self.neg_break.and_then(NonZeroI32::new))
            .decimal_point(self.point)
            .exponent(self.exponent)
            .build()
            .ok()
    }
    pub fn show(&self) -> String {
        format!(
            "max={:?} min={:?} {} trim={} breaks=({:?},{:?}) point={:?} exp={:?}",
            self.max,
            self.min,
            if self.truncate { "Truncate" } else { "Round" },
            self.trim,
            self.neg_break,
            self.pos_break,
            self.point as char,
            self.exponent as char
        )
    }
    pub fn key(&self) -> String {
        format!(
            "{}.{}.{}{}.{}.{}.{:02x}{:02x}",
            self.max.map_or("n".into(), |x| x.to_string()),
            self.min.map_or("n".into(), |x| x.to_string()),
            self.truncate as u8,
            self.trim as u8,
            self.pos_break.map_or("n".into(), |x| x.to_string()),
            self.neg_break.map_or("n".into(), |x| x.to_string()),
            self.point,
            self.exponent
        )
    }
    pub fn from_key(k: &str) -> WOpt {
        let p: Vec<&str> = k.split('.').collect();
        let o = |s: &str| if s == "n" { None } else { Some(s.parse::<i64>().unwrap()) };
        WOpt {
            max: o(p[0]).map(|x| x as usize),
            min: o(p[1]).map(|x| x as usize),
            truncate: &p[2][0..1] == "1",
            trim: &p[2][1..2] == "1",
            pos_break: o(p[3]).map(|x| x as i32),
            neg_break: o(p[4]).map(|x| x as i32),
            point: u8::from_str_radix(&p[5][0..2], 16).unwrap(),
            exponent: u8::from_str_radix(&p[5][2..4], 16).unwrap(),
        }
    }
}

/// The option product. `level` 0 = reduced (radices), 1 = quick, 2 = thorough.
pub fn wopts(level: u32, exponent: u8) -> Vec<WOpt> {
    let maxs: Vec<Option<usize>> = match level {
        0 => vec![None, Some(1), Some(5), Some(17)],
        1 => vec![None, Some(1), Some(2), Some(3), Some(5), Some(9), Some(16), Some(17), Some(18), Some(30)],
        _ => vec![None, Some(1), Some(2), Some(3), Some(4), Some(5), Some(7), Some(9), Some(15), Some(16), Some(17), Some(18), Some(19), Some(30), Some(64)],
    };
    let mins: Vec<Option<usize>> = match level {
        0 => vec![None, Some(3), Some(5), Some(25)],
        1 => vec![None, Some(1), Some(2), Some(5), Some(17), Some(25), Some(64)],
        _ => vec![None, Some(1), Some(2), Some(3), Some(5), Some(16), Some(17), Some(18), Some(25), Some(64), Some(300)],
    };
    let poss: Vec<Option<i32>> = match level {
        0 => vec![None, Some(1), Some(400)],
        1 => vec![None, Some(1), Some(5), Some(20), Some(308), Some(400)],
        _ => vec![None, Some(1), Some(2), Some(5), Some(9), Some(20), Some(308), Some(400), Some(1100)],
    };
    let negs: Vec<Option<i32>> = match level {
        0 => vec![None, Some(-1), Some(-400)],
        1 => vec![None, Some(-1), Some(-5), Some(-20), Some(-324), Some(-400)],
        _ => vec![None, Some(-1), Some(-2), Some(-5), Some(-20), Some(-324), Some(-400), Some(-1100)],
    };
    let mut v = Vec::new();
    for &max in &maxs {
        for &min in &mins {
            if let (Some(a), Some(b)) = (max, min) {
                if b > a {
                    continue;
                }
            }
            for truncate in [false, true] {
                for trim in [false, true] {
                    for &pos_break in &poss {
                        for &neg_break in &negs {
                            v.push(WOpt { max, min, truncate, trim, pos_break, neg_break, point: b'.', exponent });
                        }
                    }
                }
            }
        }
    }
    // punctuation block: a decimal point other than '.' with and without digit control / trimming
    for &max in &[None, Some(3usize)] {
        for &min in &[None, Some(7usize)] {
            if let (Some(a), Some(b)) = (max, min) {
                if b > a {
                    continue;
                }
            }
            for trim in [false, true] {
                v.push(WOpt { max, min, truncate: false, trim, pos_break: None, neg_break: None, point: b',', exponent });
            }
        }
    }
    // boundary block: breaks inside the float range combined with many minimum digits, where the
    // documented buffer bound has no slack (value exponent == break, negative sign)
    for &neg_break in &[None, Some(-13), Some(-20), Some(-300)] {
        for &min in &[Some(28usize), Some(64), Some(100), Some(300)] {
            v.push(WOpt { max: None, min, truncate: false, trim: false, pos_break: None, neg_break, point: b'.', exponent });
        }
    }
    v
}
