//! Float / integer VALUE families (BIN, SD, BD values) for the writer-side properties.

use crate::common::Flt;
use vkit::float::Fmt;
use vkit::gen;

/// BD values: landmark bit patterns (positive, finite, non-zero), both types.
pub fn bd_values(f: Fmt) -> Vec<u64> {
    let mb = f.mant_bits;
    let mut v = vec![
        1,
        2,
        3,
        (1u64 << mb) - 1,
        1u64 << mb,
        (1u64 << mb) + 1,
        f.max_finite_bits(),
        f.max_finite_bits() - 1,
    ];
    // powers of two: every binade start
    for ef in 1..f.exp_max_field() {
        v.push(ef << mb);
        v.push((ef << mb) - 1);
        v.push((ef << mb) + 1);
    }
    v.sort_unstable();
    v.dedup();
    v
}

/// SD(d): floats nearest to every decimal m*10^q with <= d significant digits, and both
/// neighbours. Uses std's (exact) parser to *construct inputs*, never as the judge.
pub fn sd_values<T: Flt>(d: u32, qlo: i64, qhi: i64) -> Vec<u64> {
    let mut v: Vec<u64> = Vec::new();
    let wmax = 10u64.pow(d);
    for q in qlo..=qhi {
        for m in 1..wmax {
            if m % 10 == 0 {
                continue;
            }
            let s = format!("{m}e{q}");
            if let Some(b) = T::std_parse(&s) {
                let a = T::FMT.abs(b);
                if a == 0 || a >= T::FMT.inf_bits() {
                    continue;
                }
                v.push(a);
                if a > 1 {
                    v.push(a - 1);
                }
                if a + 1 < T::FMT.inf_bits() {
                    v.push(a + 1);
                }
            }
        }
    }
    v.sort_unstable();
    v.dedup();
    v
}

/// integers n and their float neighbours for n < 2^k
pub fn small_int_values<T: Flt>(k: u32) -> Vec<u64> {
    let mut v = Vec::new();
    for n in 1u64..(1 << k) {
        if let Some(b) = T::std_parse(&format!("{n}")) {
            v.push(b);
            v.push(b + 1);
            v.push(b - 1);
        }
    }
    v.sort_unstable();
    v.dedup();
    v
}

pub fn bin_values(f: Fmt, level: u32) -> Vec<u64> {
    gen::bin_values(f, level)
}

/// ENDPT: floats one of whose rounding-interval endpoints (2m +- 1) * 2^(e-1) is a decimal with
/// no more significant digits than the longest shortest output: 2m +- 1 = j * 5^k (j odd) and
/// e - 1 = k + t, so the endpoint equals j * 2^t * 10^k (t >= 0) or j * 5^-t * 10^(k+t) (t < 0).
/// These are the values on which the shortest-digit search must decide whether an endpoint
/// belongs to the interval (closed for even m, open for odd m).
pub fn endpoint_values(f: Fmt, kmin: u32) -> Vec<u64> {
    let p = f.mant_bits + 1; // mantissa bits incl. hidden bit
    let lo: u128 = 1u128 << p; // 2m+-1 lies in (2^p, 2^(p+1))
    let hi: u128 = 1u128 << (p + 1);
    let dmax: u128 = if f.mant_bits == 52 { 100_000_000_000_000_000 } else { 1_000_000_000 };
    let mut out = Vec::new();
    let mut k = 0u32;
    let mut p5: u128 = 1;
    while p5 < hi {
        if k >= kmin {
            let mut j = (lo / p5) | 1;
            if j * p5 < lo {
                j += 2;
            }
            while j * p5 < hi {
                let odd = j * p5; // = 2m - 1 or 2m + 1
                for m in [(odd + 1) / 2, (odd - 1) / 2] {
                    let m = m as u64;
                    if m >> f.mant_bits != 1 {
                        continue;
                    }
                    for t in -(k as i64)..=64 {
                        let digits = if t >= 0 { j << t } else { j * 5u128.pow((-t) as u32) };
                        if digits >= dmax {
                            if t >= 0 {
                                break;
                            }
                            continue;
                        }
                        // value = m * 2^e with e - 1 = k + t
                        let e = k as i64 + t + 1;
                        let ef = e - f.emin() + 1; // biased exponent field for normals
                        if ef >= 1 && (ef as u64) < f.exp_max_field() {
                            out.push(((ef as u64) << f.mant_bits) | (m & f.mant_mask()));
                        }
                    }
                }
                j += 2;
            }
        }
        k += 1;
        p5 *= 5;
    }
    out.sort_unstable();
    out.dedup();
    out
}

/// Values whose scientific exponent is exactly one of the negative / positive exponent break
/// points the option families use inside the float range (the tight case of every size bound).
pub fn break_values<T: crate::common::Flt>() -> Vec<u64> {
    let f = T::FMT;
    let mut v = Vec::new();
    for n in [5i32, 13, 20, 30, 300, 9, 10] {
        for m in ["1", "1.5", "9.99", "1.2345678901234567"] {
            for sign in ["", "-"] {
                for es in ["-", ""] {
                    if let Some(b) = T::std_parse(&format!("{sign}{m}e{es}{n}")) {
                        if f.is_finite(b) && f.abs(b) != 0 {
                            v.push(b);
                        }
                    }
                }
            }
        }
    }
    v.sort_unstable();
    v.dedup();
    v
}
