//! Float / integer VALUE families (BIN, SD, BD values) for the writer-side properties.

use crate::common::Flt;
use vkit::float::Fmt;
use vkit::gen;

/// BD values: landmark bit patterns (positive, finite, non-zero), both types.
pub fn bd_values(f: Fmt) -> Vec<u64> {
    let mb = f.mant_bits;
    let mut v = vec![
        1,
        2,
        3,
        (1u64 << mb) - 1,
        1u64 << mb,
        (1u64 << mb) + 1,
        f.max_finite_bits(),
        f.max_finite_bits() - 1,
    ];
    // powers of two: every binade start
    for ef in 1..f.exp_max_field() {
        v.push(ef << mb);
        v.push((ef << mb) - 1);
        v.push((ef << mb) + 1);
    }
    v.sort_unstable();
    v.dedup();
    v
}

/// SD(d): floats nearest to every decimal m*10^q with <= d significant digits, and both
/// neighbours. Uses std's (exact) parser to *construct inputs*, never as the judge.
pub fn sd_values<T: Flt>(d: u32, qlo: i64, qhi: i64) -> Vec<u64> {
    let mut v: Vec<u64> = Vec::new();
    let wmax = 10u64.pow(d);
    for q in qlo..=qhi {
        for m in 1..wmax {
            if m % 10 == 0 {
                continue;
            }
            let s = format!("{m}e{q}");
            if let Some(b) = T::std_parse(&s) {
                let a = T::FMT.abs(b);
                if a == 0 || a >= T::FMT.inf_bits() {
                    continue;
                }
                v.push(a);
                if a > 1 {
                    v.push(a - 1);
                }
                if a + 1 < T::FMT.inf_bits() {
                    v.push(a + 1);
                }
            }
        }
    }
    v.sort_unstable();
    v.dedup();
    v
}

/// integers n and their float neighbours for n < 2^k
pub fn small_int_values<T: Flt>(k: u32) -> Vec<u64> {
    let mut v = Vec::new();
    for n in 1u64..(1 << k) {
        if let Some(b) = T::std_parse(&format!("{n}")) {
            v.push(b);
            v.push(b + 1);
            v.push(b - 1);
        }
    }
    v.sort_unstable();
    v.dedup();
    v
}

pub fn bin_values(f: Fmt, level: u32) -> Vec<u64> {
    gen::bin_values(f, level)
}
