#!/usr/bin/env python3
"""Generate the compile-time format catalogue (harness/src/gen/*.rs). Deterministic.

Each format is described ONCE here (builder calls + an independent runtime descriptor); the
descriptor is what the reference grammar interprets, the builder chain is what lexical compiles.
"""
import itertools, os, re, sys

ROOT = os.path.dirname(os.path.dirname(os.path.abspath(__file__)))
OUT = os.path.join(ROOT, "harness", "src", "gen")

SYNTAX = ["required_integer_digits", "required_fraction_digits", "required_exponent_digits", "required_mantissa_digits",
          "no_positive_mantissa_sign", "required_mantissa_sign", "no_exponent_notation", "no_positive_exponent_sign",
          "required_exponent_sign", "no_exponent_without_fraction", "no_special", "case_sensitive_special",
          "no_integer_leading_zeros", "no_float_leading_zeros", "required_exponent_notation", "case_sensitive_exponent",
          "case_sensitive_base_prefix", "case_sensitive_base_suffix"]
STANDARD_ON = {"required_exponent_digits", "required_mantissa_digits"}
COMP = ["integer", "fraction", "exponent"]
KINDS = ["internal", "leading", "trailing", "consecutive"]


class Fmt:
    def __init__(self, group, name, flags=None, sep=None, prefix=None, suffix=None, radix=10, base=None, eradix=None,
                 sepflags=None, special_sep=False, needs_p2=False, needs_radix=False):
        self.group, self.name = group, name
        self.flags = set(STANDARD_ON) if flags is None else set(flags)
        self.sep, self.prefix, self.suffix = sep, prefix, suffix
        self.radix, self.base, self.eradix = radix, base or radix, eradix or radix
        self.sepflags = sepflags or {}  # (component, kind) -> True
        self.special_sep = special_sep
        self.needs_p2 = needs_p2 or prefix is not None or suffix is not None or radix != 10 or self.base != 10 or self.eradix != 10
        self.needs_radix = needs_radix or any(r not in (2, 4, 8, 10, 16, 32) for r in (self.radix, self.base, self.eradix))

    def valid(self):
        f = self.flags
        if "no_positive_mantissa_sign" in f and "required_mantissa_sign" in f: return False
        if "no_positive_exponent_sign" in f and "required_exponent_sign" in f: return False
        if "no_exponent_notation" in f and "required_exponent_notation" in f: return False
        if "no_special" in f and ("case_sensitive_special" in f or self.special_sep): return False
        for c in COMP:
            ks = [k for k in KINDS if self.sepflags.get((c, k))]
            if ks == ["consecutive"]: return False
        return True

    def builder(self):
        s = "lexical_core::NumberFormatBuilder::new()"
        if self.radix != 10: s += f".mantissa_radix({self.radix})"
        if self.base != self.radix or self.radix != 10: s += f".exponent_base(core::num::NonZeroU8::new({self.base}))"
        if self.eradix != self.radix or self.radix != 10: s += f".exponent_radix(core::num::NonZeroU8::new({self.eradix}))"
        if self.sep:
            q = "\\'" if self.sep == "'" else self.sep
            s += f".digit_separator(core::num::NonZeroU8::new(b'{q}'))"
        if self.prefix: s += f".base_prefix(core::num::NonZeroU8::new(b'{self.prefix}'))"
        if self.suffix: s += f".base_suffix(core::num::NonZeroU8::new(b'{self.suffix}'))"
        for fl in SYNTAX:
            on = fl in self.flags
            default_on = fl in STANDARD_ON
            if on != default_on:
                s += f".{fl}({'true' if on else 'false'})"
        for c in COMP:
            for k in KINDS:
                if self.sepflags.get((c, k)):
                    s += f".{c}_{k}_digit_separator(true)"
        if self.special_sep: s += ".special_digit_separator(true)"
        return s + ".build_unchecked()"

    def desc(self):
        b = lambda x: "true" if x else "false"
        ch = lambda c: (f"b'\\{c}'" if c == "'" else f"b'{c}'") if c else "0"
        arr = lambda k: "[" + ", ".join(b(self.sepflags.get((c, k))) for c in COMP) + "]"
        fields = [f'name: "{self.name}"', f"mantissa_radix: {self.radix}", f"exponent_base: {self.base}", f"exponent_radix: {self.eradix}",
                  f"sep: {ch(self.sep)}", f"prefix: {ch(self.prefix)}", f"suffix: {ch(self.suffix)}"]
        for fl in SYNTAX:
            fields.append(f"{fl}: {b(fl in self.flags)}")
        for k in KINDS:
            fields.append(f"{k}: {arr(k)}")
        fields.append(f"special_sep: {b(self.special_sep)}")
        return "vkit::gram::FmtDesc { " + ", ".join(fields) + " }"


def build():
    fs = []
    fs.append(Fmt("STD", "STANDARD"))
    # FLAG1: each syntax flag toggled alone
    for fl in SYNTAX:
        flags = set(STANDARD_ON) ^ {fl}
        kw = {}
        if fl == "case_sensitive_base_prefix": kw = dict(prefix="x")
        if fl == "case_sensitive_base_suffix": kw = dict(suffix="h")
        fs.append(Fmt("FLAG1", f"flag1_{fl}", flags, **kw))
    # DIGITS cluster: power set of 7 flags
    dg = ["required_integer_digits", "required_fraction_digits", "required_exponent_digits", "required_mantissa_digits",
          "required_exponent_notation", "no_exponent_notation", "no_exponent_without_fraction"]
    for bits in itertools.product([0, 1], repeat=7):
        flags = {d for d, b in zip(dg, bits) if b}
        f = Fmt("DIGITS", "digits_" + "".join(map(str, bits)), flags)
        if f.valid(): fs.append(f)
    # SIGN cluster
    sg = ["no_positive_mantissa_sign", "required_mantissa_sign", "no_positive_exponent_sign", "required_exponent_sign"]
    for bits in itertools.product([0, 1], repeat=4):
        flags = set(STANDARD_ON) | {d for d, b in zip(sg, bits) if b}
        f = Fmt("SIGN", "sign_" + "".join(map(str, bits)), flags)
        if f.valid(): fs.append(f)
    # SPECIAL cluster (x special separator)
    for ns, cs, ss in itertools.product([0, 1], repeat=3):
        flags = set(STANDARD_ON) | ({"no_special"} if ns else set()) | ({"case_sensitive_special"} if cs else set())
        f = Fmt("SPECIAL", f"special_{ns}{cs}{ss}", flags, sep="_" if ss else None, special_sep=bool(ss))
        if f.valid(): fs.append(f)
    # LZERO cluster x prefix
    for a, b_, p in itertools.product([0, 1], repeat=3):
        flags = set(STANDARD_ON) | ({"no_integer_leading_zeros"} if a else set()) | ({"no_float_leading_zeros"} if b_ else set())
        fs.append(Fmt("LZERO", f"lzero_{a}{b_}{p}", flags, prefix="x" if p else None))
        if a or b_:
            fs.append(Fmt("LZERO", f"lzero_suffix_{a}{b_}{p}", flags, prefix="x" if p else None, suffix="h"))
    # CASE cluster: exponent / prefix / suffix case sensitivity with prefix x and suffix h (radix 10 and 16)
    for a, b_, c in itertools.product([0, 1], repeat=3):
        flags = set(STANDARD_ON) | ({"case_sensitive_exponent"} if a else set()) | ({"case_sensitive_base_prefix"} if b_ else set()) | ({"case_sensitive_base_suffix"} if c else set())
        fs.append(Fmt("CASE", f"case10_{a}{b_}{c}", flags, prefix="x", suffix="h"))
        fs.append(Fmt("CASE", f"case16_{a}{b_}{c}", flags, prefix="x", suffix="h", radix=16, base=2, eradix=10))
    # SEP15: one component carrying each of the 15 valid I/L/T/C combinations; and the same on all three
    combos = []
    for bits in itertools.product([0, 1], repeat=4):
        ks = [k for k, b in zip(KINDS, bits) if b]
        if ks and ks != ["consecutive"]:
            combos.append(ks)
    for ci, ks in enumerate(combos):
        tag = "".join(k[0] for k in ks)
        for c in COMP:
            fs.append(Fmt("SEP15", f"sep_{c}_{tag}", sep="_", sepflags={(c, k): True for k in ks}))
        fs.append(Fmt("SEP15", f"sep_all_{tag}", sep="_", sepflags={(c, k): True for c in COMP for k in ks}))
    # SEPX: other separator bytes and radices
    allflags = {(c, k): True for c in COMP for k in KINDS}
    fs.append(Fmt("SEPX", "sepx_comma", sep=",", sepflags=allflags))
    fs.append(Fmt("SEPX", "sepx_quote_int", sep="'", sepflags={("integer", "internal"): True}))
    fs.append(Fmt("SEPX", "sepx_hex_p", sep="_", sepflags=allflags, radix=16, base=2, eradix=10))
    fs.append(Fmt("SEPX", "sepx_hex_hexexp", sep="_", sepflags=allflags, radix=16, base=16, eradix=16))
    fs.append(Fmt("SEPX", "sepx_dec_hexexp", sep="_", sepflags=allflags, radix=10, base=10, eradix=16))
    fs.append(Fmt("SEPX", "sepx_letter_g", sep="g", sepflags=allflags))
    fs.append(Fmt("SEPX", "sepx_prefix_suffix", sep="_", sepflags=allflags, prefix="x", suffix="h", radix=16, base=2, eradix=10))
    fs.append(Fmt("SEPX", "sepx_int_only_all", sep="_", sepflags={("integer", k): True for k in KINDS}))
    # mantissa radix 16 with decimal exponent digits: one flag on the exponent only (the exponent
    # iterator must judge digits by the exponent radix)
    fs.append(Fmt("SEPX", "sepx_hex_p_exp_i", sep="_", sepflags={("exponent", "internal"): True}, radix=16, base=2, eradix=10))
    fs.append(Fmt("SEPX", "sepx_hex_p_exp_ilt", sep="_", sepflags={("exponent", k): True for k in ("internal", "leading", "trailing")}, radix=16, base=2, eradix=10))
    # TWIN: separator-free counterparts of the SEPX formats that are not STANDARD
    fs.append(Fmt("TWIN", "twin_hex_p", radix=16, base=2, eradix=10))
    fs.append(Fmt("TWIN", "twin_hex_hexexp", radix=16, base=16, eradix=16))
    fs.append(Fmt("TWIN", "twin_dec_hexexp", radix=10, base=10, eradix=16))
    fs.append(Fmt("TWIN", "twin_prefix_suffix", prefix="x", suffix="h", radix=16, base=2, eradix=10))
    # SEPX (sepf_*): separators x syntax flags / base prefix / base suffix, with their separator-free twins
    bases = {
        "lzero": dict(flags=set(STANDARD_ON) | {"no_integer_leading_zeros", "no_float_leading_zeros"}),
        "nodigits": dict(flags=set()),
        "reqall": dict(flags=set(STANDARD_ON) | {"required_integer_digits", "required_fraction_digits"}),
        "signs": dict(flags=set(STANDARD_ON) | {"required_mantissa_sign", "required_exponent_sign"}),
        "nopos": dict(flags=set(STANDARD_ON) | {"no_positive_mantissa_sign", "no_positive_exponent_sign"}),
        "noexpnofrac": dict(flags=set(STANDARD_ON) | {"no_exponent_without_fraction"}),
        "reqexp": dict(flags=set(STANDARD_ON) | {"required_exponent_notation"}),
        "noexp": dict(flags=set(STANDARD_ON) | {"no_exponent_notation"}),
        "suffix": dict(suffix="h", radix=16, base=2, eradix=10),
        "prefix": dict(prefix="x", radix=16, base=2, eradix=10),
    }
    variants = {
        "all": allflags,
        "i": {(c, "internal"): True for c in COMP},
        "l": {(c, "leading"): True for c in COMP},
        "t": {(c, "trailing"): True for c in COMP},
    }
    for bn, kw in bases.items():
        fs.append(Fmt("TWIN", f"twinf_{bn}", **kw))
        for vn, sf in variants.items():
            fs.append(Fmt("SEPX", f"sepf_{bn}__{vn}", sep="_", sepflags=dict(sf), **kw))
    # INVALID: one format per class of invalidity (never used for parsing values: every entry
    # point must answer with a configuration error)
    inv = [
        ("inv_mantissa_radix_1", dict(radix=1)), ("inv_mantissa_radix_37", dict(radix=37)),
        ("inv_exponent_base_37", dict(base=37)), ("inv_exponent_radix_40", dict(eradix=40)),
        ("inv_sep_digit", dict(sep="1", sepflags={("integer", "internal"): True})),
        ("inv_sep_plus", dict(sep="+", sepflags={("integer", "internal"): True})),
        ("inv_prefix_digit", dict(prefix="7")), ("inv_suffix_minus", dict(suffix="-")),
        ("inv_prefix_eq_suffix", dict(prefix="x", suffix="x")),
        ("inv_sep_eq_prefix", dict(sep="x", prefix="x", sepflags={("integer", "internal"): True})),
        ("inv_exponent_flags", dict(flags=set(STANDARD_ON) | {"no_exponent_notation", "required_exponent_notation"})),
        ("inv_mantissa_sign", dict(flags=set(STANDARD_ON) | {"no_positive_mantissa_sign", "required_mantissa_sign"})),
        ("inv_exponent_sign", dict(flags=set(STANDARD_ON) | {"no_positive_exponent_sign", "required_exponent_sign"})),
        ("inv_special", dict(flags=set(STANDARD_ON) | {"no_special", "case_sensitive_special"})),
        ("inv_special_sep", dict(flags=set(STANDARD_ON) | {"no_special"}, sep="_", special_sep=True)),
        ("inv_int_consecutive", dict(sep="_", sepflags={("integer", "consecutive"): True})),
        ("inv_frac_consecutive", dict(sep="_", sepflags={("fraction", "consecutive"): True})),
        ("inv_exp_consecutive", dict(sep="_", sepflags={("exponent", "consecutive"): True})),
    ]
    for name, kw in inv:
        f = Fmt("INVALID", name, **kw)
        f.force_invalid = True
        fs.append(f)
    # RADIX
    for r in (2, 3, 8, 16, 20, 36):
        fs.append(Fmt("RADIX", f"radix{r}", radix=r))
    return fs


def prebuilt_names():
    src = open("/repo/lexical-util/src/prebuilt_formats.rs").read()
    out = []
    for m in re.finditer(r'((?:#\[cfg\([^\n]*\)\]\s*\n)?)pub const ([A-Z0-9_]+): u128', src):
        out.append((m.group(2), "power-of-two" in m.group(1)))
    return out


def main():
    fs = build()
    names = set()
    for f in fs:
        assert f.valid() or getattr(f, "force_invalid", False), f.name
        assert f.name not in names, f.name
        names.add(f.name)
    os.makedirs(OUT, exist_ok=True)
    for fn in os.listdir(OUT):
        os.remove(os.path.join(OUT, fn))
    per = 6
    mods = []
    rows = []
    for f in fs:
        cfg = ""
        if getattr(f, "force_invalid", False): cfg = '#[cfg(feature = "power-of-two")] ' if f.needs_p2 else ""
        elif f.needs_radix: cfg = '#[cfg(feature = "radix")] '
        elif f.needs_p2: cfg = '#[cfg(feature = "power-of-two")] '
        rows.append(f'    {cfg}v.push(cat_entry!("{f.group}", {f.desc()}, {f.builder()}));')
    for name, p2 in prebuilt_names():
        cfg = '#[cfg(feature = "power-of-two")] ' if p2 else ""
        rows.append(f'    {cfg}v.push(cat_entry!("PREBUILT", crate::cat::desc_from_format::<{{ lexical_core::format::{name} }}>("{name}"), lexical_core::format::{name}));')
    for i in range(0, len(rows), per):
        m = f"g{i // per:03d}"
        mods.append(m)
        with open(os.path.join(OUT, m + ".rs"), "w") as o:
            o.write("// @generated by tools/gen_catalogue.py\nuse crate::cat::CatFmt;\nuse crate::cat_entry;\n\n#[inline(never)]\npub fn entries(v: &mut Vec<CatFmt>) {\n")
            o.write("\n".join(rows[i:i + per]))
            o.write("\n}\n")
    # writer/parser rows for the prebuilt formats (C08)
    wrows = []
    for name, p2 in prebuilt_names():
        cfg = '#[cfg(feature = "power-of-two")] ' if p2 else ""
        wrows.append(f'    {cfg}v.push(float_fmt!(T, "{name}", lexical_core::format::{name}));')
    wper = 8
    wmods = []
    for i in range(0, len(wrows), wper):
        m = f"w{i // wper:03d}"
        wmods.append(m)
        with open(os.path.join(OUT, m + ".rs"), "w") as o:
            o.write("// @generated by tools/gen_catalogue.py\nuse crate::common::Flt;\nuse crate::float_fmt;\nuse crate::fmtcat::FloatFmt;\n\n#[inline(never)]\npub fn entries<T: Flt>(v: &mut Vec<FloatFmt<T>>) {\n")
            o.write("\n".join(wrows[i:i + wper]))
            o.write("\n}\n")
    with open(os.path.join(OUT, "mod.rs"), "w") as o:
        o.write("// @generated by tools/gen_catalogue.py\n")
        for m in mods:
            o.write(f"mod {m};\n")
        o.write("\npub fn all() -> Vec<crate::cat::CatFmt> {\n    let mut v = Vec::new();\n")
        for m in mods:
            o.write(f"    {m}::entries(&mut v);\n")
        o.write("    v\n}\n")
        for m in wmods:
            o.write(f"#[cfg(feature = \"prebuiltw\")]\nmod {m};\n")
        o.write("\n#[cfg(feature = \"prebuiltw\")]\npub fn prebuilt_writers<T: crate::common::Flt>() -> Vec<crate::fmtcat::FloatFmt<T>> {\n    let mut v = Vec::new();\n")
        for m in wmods:
            o.write(f"    {m}::entries::<T>(&mut v);\n")
        o.write("    v\n}\n")
    print(f"catalogue: {len(fs)} generated formats + {len(prebuilt_names())} prebuilt in {len(mods)} modules")


if __name__ == "__main__":
    main()
