#!/usr/bin/env python3
"""Generate /verif/MANIFEST.json from checks_table.py and properties.jsonl."""
import json, os, sys
ROOT = os.path.dirname(os.path.dirname(os.path.abspath(__file__)))
sys.path.insert(0, ROOT)
from checks_table import CHECKS, NOT_APPLICABLE

props = [json.loads(l) for l in open(os.path.join(ROOT, "properties.jsonl"))]
checks = []
for p in props:
    pid = p["id"]
    if pid not in CHECKS:
        continue
    spec = CHECKS[pid]
    checks.append({
        "property_id": pid,
        "quick_cmd": f"./check {pid} --tier quick",
        "thorough_cmd": f"./check {pid} --tier thorough",
        "evidence_file": f"/verif/evidence/{pid}.json",
        "replay_cmd_template": "./check replay {path}",
        "engine": "explorer",
        "level_claimed": {
            "category": "model_checking",
            "text": spec.get("level_text", "bounded-exhaustive enumeration of the stated input/configuration space, executed on the real implementation and compared case by case with an independent reference model"),
            "design_ref": f"DESIGN.md §5 {pid}",
        },
        "level_note": spec.get("level_note", "trusted base: vkit reference models (exact big-integer arithmetic, reference grammar), self-checked against Rust std at start-up; bounds as stated in evidence coverage.bounds"),
        "technique": spec.get("technique", "explicit-state bounded-exhaustive enumeration on the implementation vs reference model"),
    })
na = [{"property_id": p["id"], "reason": NOT_APPLICABLE.get(p["id"], "check not built yet (work in progress)")}
      for p in props if p["id"] not in CHECKS]
m = {
    "version": 1,
    "setup_cmd": "./check setup",
    "hooks": {
        "guard": "lexical_verif",
        "enable": "none needed: explorers call only the public API of lexical-core / lexical built from /repo by path dependency; no source line in /repo uses the guard",
        "baseline_off_cmd": "cd /repo && cargo test --workspace --no-fail-fast --offline",
        "source_commits": [],
        "add_only": True,
    },
    "engines": [{
        "name": "explorer",
        "path": "/verif/harness (Rust explorer binaries, one per property and Cargo feature set) + /verif/vkit (reference models) + /verif/check (driver)",
        "serves_properties": [c["property_id"] for c in checks],
        "kind_free_text": "explicit bounded-exhaustive enumeration of inputs/configurations on the real code with exact reference models (stateless explicit-state model checking of a sequential library)",
    }],
    "checks": checks,
    "not_applicable": na,
    "notes": "See DESIGN.md. known_findings.json lists genuine defects recorded rather than repaired and the fix: commits.",
}
json.dump(m, open(os.path.join(ROOT, "MANIFEST.json"), "w"), indent=1)
print(f"MANIFEST.json: {len(checks)} checks, {len(na)} not_applicable")
