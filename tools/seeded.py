#!/usr/bin/env python3
"""Apply a seeded change to /repo, run the quick (or thorough) tier of the given checks, revert.
usage: tools/seeded.py <seed id> [--tier quick] [checks...]   (default check = the seed's property)
Appends a line to seeded/RESULTS.md."""
import json, os, subprocess, sys, time
ROOT = os.path.dirname(os.path.dirname(os.path.abspath(__file__)))
args = sys.argv[1:]
tier = "quick"
if "--tier" in args:
    i = args.index("--tier"); tier = args[i + 1]; del args[i:i + 2]
sid = args[0]
d = os.path.join(ROOT, "seeded", sid)
meta = json.load(open(os.path.join(d, "meta.json")))
checks = args[1:] or [meta["property"]]
patch = os.path.join(d, "patch.diff")
st = subprocess.run(["git", "-C", "/repo", "status", "--porcelain", "--untracked-files=no"], capture_output=True, text=True).stdout.strip()
assert st == "", "/repo has local changes: " + st
subprocess.run(["git", "-C", "/repo", "apply", patch], check=True)
rows = []
try:
    for c in checks:
        t = time.time()
        ev = os.path.join(ROOT, "evidence", c + ".json")
        saved = open(ev).read() if os.path.exists(ev) else None
        p = subprocess.run([os.path.join(ROOT, "check"), c, "--tier", tier], capture_output=True, text=True, cwd=ROOT)
        if saved is not None:
            open(ev, "w").write(saved)  # committed evidence only ever comes from the unchanged tree
        viol = [l for l in p.stdout.splitlines() if l.startswith("VIOLATION")]
        first = next((l.strip() for l in p.stdout.splitlines() if l.startswith("  ")), "")
        rows.append((c, p.returncode, len(viol), first[:300], round(time.time() - t)))
        print(c, "exit", p.returncode, "violations", len(viol), first[:200])
finally:
    subprocess.run(["git", "-C", "/repo", "checkout", "--", "."], check=True)
with open(os.path.join(ROOT, "seeded", "RESULTS.md"), "a") as f:
    for c, rc, n, first, dt in rows:
        f.write(f"| {sid} | {meta['property']} | {c} {tier} | {'DETECTED' if rc == 1 else ('machinery' if rc == 2 else 'missed')} | {n} | {dt}s | {first.replace('|', '/')} |\n")
