//! R-big: unsigned big integer on `Vec<u64>` (little endian limbs, no trailing zero limbs).
//! Deliberately simple; independent of lexical.

use std::cmp::Ordering;

#[derive(Clone, Debug, PartialEq, Eq, Default)]
pub struct Big {
    pub l: Vec<u64>,
}

impl Big {
    pub fn zero() -> Big {
        Big { l: Vec::new() }
    }
    pub fn from_u64(x: u64) -> Big {
        if x == 0 {
            Big::zero()
        } else {
            Big { l: vec![x] }
        }
    }
    pub fn from_u128(x: u128) -> Big {
        let mut b = Big { l: vec![x as u64, (x >> 64) as u64] };
        b.norm();
        b
    }
    pub fn to_u128(&self) -> Option<u128> {
        match self.l.len() {
            0 => Some(0),
            1 => Some(self.l[0] as u128),
            2 => Some(self.l[0] as u128 | ((self.l[1] as u128) << 64)),
            _ => None,
        }
    }
    fn norm(&mut self) {
        while let Some(&0) = self.l.last() {
            self.l.pop();
        }
    }
    pub fn is_zero(&self) -> bool {
        self.l.is_empty()
    }
    pub fn bit_length(&self) -> u64 {
        match self.l.last() {
            None => 0,
            Some(&t) => (self.l.len() as u64) * 64 - t.leading_zeros() as u64,
        }
    }
    pub fn is_even(&self) -> bool {
        self.l.first().map_or(true, |x| x & 1 == 0)
    }
    pub fn trailing_zeros(&self) -> u64 {
        let mut n = 0;
        for &x in &self.l {
            if x == 0 {
                n += 64;
            } else {
                return n + x.trailing_zeros() as u64;
            }
        }
        n
    }
    pub fn mul_small(&mut self, m: u64) {
        if m == 0 {
            self.l.clear();
            return;
        }
        let mut carry: u128 = 0;
        for x in self.l.iter_mut() {
            let t = (*x as u128) * (m as u128) + carry;
            *x = t as u64;
            carry = t >> 64;
        }
        if carry != 0 {
            self.l.push(carry as u64);
        }
    }
    pub fn add_small(&mut self, a: u64) {
        let mut carry = a;
        for x in self.l.iter_mut() {
            let (s, o) = x.overflowing_add(carry);
            *x = s;
            if !o {
                carry = 0;
                break;
            }
            carry = 1;
        }
        if carry != 0 {
            self.l.push(carry);
        }
    }
    /// self / d, returns remainder.
    pub fn divrem_small(&mut self, d: u64) -> u64 {
        let mut rem: u128 = 0;
        for x in self.l.iter_mut().rev() {
            let cur = (rem << 64) | (*x as u128);
            *x = (cur / d as u128) as u64;
            rem = cur % d as u128;
        }
        self.norm();
        rem as u64
    }
    pub fn shl(&self, n: u64) -> Big {
        if self.is_zero() {
            return Big::zero();
        }
        let limbs = (n / 64) as usize;
        let bits = (n % 64) as u32;
        let mut out = vec![0u64; limbs];
        if bits == 0 {
            out.extend_from_slice(&self.l);
        } else {
            let mut carry = 0u64;
            for &x in &self.l {
                out.push((x << bits) | carry);
                carry = x >> (64 - bits);
            }
            if carry != 0 {
                out.push(carry);
            }
        }
        Big { l: out }
    }
    /// floor(self / 2^n)
    pub fn shr(&self, n: u64) -> Big {
        let limbs = (n / 64) as usize;
        let bits = (n % 64) as u32;
        if limbs >= self.l.len() {
            return Big::zero();
        }
        let src = &self.l[limbs..];
        let mut out = Vec::with_capacity(src.len());
        if bits == 0 {
            out.extend_from_slice(src);
        } else {
            for i in 0..src.len() {
                let hi = if i + 1 < src.len() { src[i + 1] << (64 - bits) } else { 0 };
                out.push((src[i] >> bits) | hi);
            }
        }
        let mut b = Big { l: out };
        b.norm();
        b
    }
    pub fn add(&self, o: &Big) -> Big {
        let (a, b) = if self.l.len() >= o.l.len() { (self, o) } else { (o, self) };
        let mut out = Vec::with_capacity(a.l.len() + 1);
        let mut carry = 0u64;
        for i in 0..a.l.len() {
            let y = if i < b.l.len() { b.l[i] } else { 0 };
            let (s1, o1) = a.l[i].overflowing_add(y);
            let (s2, o2) = s1.overflowing_add(carry);
            out.push(s2);
            carry = (o1 as u64) + (o2 as u64);
        }
        if carry != 0 {
            out.push(carry);
        }
        Big { l: out }
    }
    /// self - o, requires self >= o.
    pub fn sub(&self, o: &Big) -> Big {
        assert!(self.cmp(o) != Ordering::Less, "Big::sub underflow");
        let mut out = Vec::with_capacity(self.l.len());
        let mut borrow = 0u64;
        for i in 0..self.l.len() {
            let y = if i < o.l.len() { o.l[i] } else { 0 };
            let (s1, o1) = self.l[i].overflowing_sub(y);
            let (s2, o2) = s1.overflowing_sub(borrow);
            out.push(s2);
            borrow = (o1 as u64) + (o2 as u64);
        }
        let mut b = Big { l: out };
        b.norm();
        b
    }
    /// |self - o|
    pub fn abs_diff(&self, o: &Big) -> Big {
        if self.cmp(o) == Ordering::Less {
            o.sub(self)
        } else {
            self.sub(o)
        }
    }
    pub fn mul(&self, o: &Big) -> Big {
        if self.is_zero() || o.is_zero() {
            return Big::zero();
        }
        let mut out = vec![0u64; self.l.len() + o.l.len()];
        for (i, &x) in self.l.iter().enumerate() {
            let mut carry: u128 = 0;
            for (j, &y) in o.l.iter().enumerate() {
                let t = (x as u128) * (y as u128) + (out[i + j] as u128) + carry;
                out[i + j] = t as u64;
                carry = t >> 64;
            }
            let mut k = i + o.l.len();
            while carry != 0 {
                let t = (out[k] as u128) + carry;
                out[k] = t as u64;
                carry = t >> 64;
                k += 1;
            }
        }
        let mut b = Big { l: out };
        b.norm();
        b
    }
    pub fn cmp(&self, o: &Big) -> Ordering {
        if self.l.len() != o.l.len() {
            return self.l.len().cmp(&o.l.len());
        }
        for i in (0..self.l.len()).rev() {
            if self.l[i] != o.l[i] {
                return self.l[i].cmp(&o.l[i]);
            }
        }
        Ordering::Equal
    }
    pub fn pow(base: u64, exp: u64) -> Big {
        // square and multiply
        let mut result = Big::from_u64(1);
        let mut b = Big::from_u64(base);
        let mut e = exp;
        while e > 0 {
            if e & 1 == 1 {
                result = result.mul(&b);
            }
            e >>= 1;
            if e > 0 {
                b = b.mul(&b);
            }
        }
        result
    }
    /// Parse ASCII digits (0-9, a-z, A-Z) in `radix`. Panics on invalid digit.
    pub fn from_digits(digits: &[u8], radix: u32) -> Big {
        // chunked multiply
        let mut b = Big::zero();
        let mut chunk: u64 = 0;
        let mut mult: u64 = 1;
        let lim = u64::MAX / (radix as u64) / (radix as u64);
        for &c in digits {
            let d = digit_value(c).expect("digit") as u64;
            assert!(d < radix as u64, "digit out of radix");
            chunk = chunk * radix as u64 + d;
            mult *= radix as u64;
            if mult > lim {
                b.mul_small(mult);
                b.add_small(chunk);
                chunk = 0;
                mult = 1;
            }
        }
        if mult > 1 {
            b.mul_small(mult);
            b.add_small(chunk);
        }
        b
    }
    /// Canonical numeral (upper-case letters) in `radix`; "0" for zero.
    pub fn to_digits(&self, radix: u32) -> Vec<u8> {
        if self.is_zero() {
            return vec![b'0'];
        }
        let mut chunk_pow = radix as u64;
        let mut chunk_digits = 1;
        while chunk_pow <= u64::MAX / radix as u64 {
            chunk_pow *= radix as u64;
            chunk_digits += 1;
        }
        let mut t = self.clone();
        let mut out: Vec<u8> = Vec::new();
        while !t.is_zero() {
            let mut r = t.divrem_small(chunk_pow);
            for _ in 0..chunk_digits {
                out.push(digit_char((r % radix as u64) as u32));
                r /= radix as u64;
                if r == 0 && t.is_zero() {
                    break;
                }
            }
        }
        while out.len() > 1 && *out.last().unwrap() == b'0' {
            out.pop();
        }
        out.reverse();
        out
    }
}

pub fn digit_value(c: u8) -> Option<u32> {
    match c {
        b'0'..=b'9' => Some((c - b'0') as u32),
        b'a'..=b'z' => Some((c - b'a') as u32 + 10),
        b'A'..=b'Z' => Some((c - b'A') as u32 + 10),
        _ => None,
    }
}

pub fn digit_char(d: u32) -> u8 {
    if d < 10 {
        b'0' + d as u8
    } else {
        b'A' + (d - 10) as u8
    }
}

/// Memo table of powers of a fixed base.
pub struct PowTable {
    pub base: u64,
    pows: Vec<Big>,
}

impl PowTable {
    pub fn new(base: u64) -> PowTable {
        PowTable { base, pows: vec![Big::from_u64(1)] }
    }
    pub fn get(&mut self, e: u64) -> &Big {
        while (self.pows.len() as u64) <= e {
            let mut n = self.pows.last().unwrap().clone();
            n.mul_small(self.base);
            self.pows.push(n);
        }
        &self.pows[e as usize]
    }
}

/// Self-check of the arithmetic against u128 and structural identities. Returns Err(description).
pub fn self_check() -> Result<(), String> {
    let vals: [u128; 12] = [
        0,
        1,
        2,
        9,
        10,
        u32::MAX as u128,
        u64::MAX as u128,
        (u64::MAX as u128) + 1,
        12345678901234567890123456789u128,
        u128::MAX / 3,
        1u128 << 100,
        0xDEADBEEF_CAFEBABE_0123_4567u128,
    ];
    for &a in &vals {
        for &b in &vals {
            let (ba, bb) = (Big::from_u128(a), Big::from_u128(b));
            if let Some(s) = a.checked_add(b) {
                if ba.add(&bb).to_u128() != Some(s) {
                    return Err(format!("add {a} {b}"));
                }
            }
            if let Some(p) = a.checked_mul(b) {
                if ba.mul(&bb).to_u128() != Some(p) {
                    return Err(format!("mul {a} {b}"));
                }
            }
            if a >= b && ba.sub(&bb).to_u128() != Some(a - b) {
                return Err(format!("sub {a} {b}"));
            }
            if ba.cmp(&bb) != a.cmp(&b) {
                return Err(format!("cmp {a} {b}"));
            }
        }
        for sh in [0u64, 1, 7, 63, 64, 65, 100] {
            let ba = Big::from_u128(a);
            if ba.shl(sh).shr(sh) != ba {
                return Err(format!("shl/shr {a} {sh}"));
            }
            if sh < 128 && ba.shr(sh).to_u128() != Some(a >> sh) {
                return Err(format!("shr {a} {sh}"));
            }
        }
        for r in [2u32, 3, 10, 16, 36] {
            let ba = Big::from_u128(a);
            let d = ba.to_digits(r);
            if Big::from_digits(&d, r) != ba {
                return Err(format!("digits {a} r{r}"));
            }
            if r == 10 && d != a.to_string().as_bytes() {
                return Err(format!("to_digits10 {a}"));
            }
        }
    }
    // 10^40 = 2^40 * 5^40
    let p = Big::pow(10, 40);
    if p != Big::pow(5, 40).shl(40) {
        return Err("pow10".into());
    }
    if p.to_digits(10) != format!("1{}", "0".repeat(40)).as_bytes() {
        return Err("pow10 digits".into());
    }
    // (2^200 - 1) in hex
    let x = Big::from_u64(1).shl(200).sub(&Big::from_u64(1));
    if x.to_digits(16) != "F".repeat(50).as_bytes() || x.bit_length() != 200 {
        return Err("2^200-1".into());
    }
    let mut t = PowTable::new(7);
    if *t.get(30) != Big::pow(7, 30) {
        return Err("powtable".into());
    }
    Ok(())
}
