fn main() {
    let t = std::time::Instant::now();
    match vkit::self_check_all() {
        Ok(()) => println!("vkit self-check ok in {:.2}s", t.elapsed().as_secs_f64()),
        Err(e) => {
            eprintln!("MACHINERY: self-check failed: {e}");
            std::process::exit(2);
        }
    }
}
