//! R-float: exact IEEE-754 binary32/binary64 model on top of R-big.

use crate::big::{Big, PowTable};
use std::cmp::Ordering;

#[derive(Clone, Copy, Debug, PartialEq, Eq)]
pub struct Fmt {
    pub mant_bits: u32,
    pub exp_bits: u32,
}

pub const F32: Fmt = Fmt { mant_bits: 23, exp_bits: 8 };
pub const F64: Fmt = Fmt { mant_bits: 52, exp_bits: 11 };

#[derive(Clone, Copy, Debug, PartialEq, Eq)]
pub enum Class {
    Zero,
    /// value = m * 2^e, m includes the hidden bit for normals.
    Finite(u64, i64),
    Inf,
    Nan,
}

impl Fmt {
    pub fn bits(&self) -> u32 {
        1 + self.exp_bits + self.mant_bits
    }
    pub fn bias(&self) -> i64 {
        (1i64 << (self.exp_bits - 1)) - 1
    }
    /// exponent of the unit in the last place of subnormals
    pub fn emin(&self) -> i64 {
        1 - self.bias() - self.mant_bits as i64
    }
    pub fn sign_mask(&self) -> u64 {
        1u64 << (self.bits() - 1)
    }
    pub fn mant_mask(&self) -> u64 {
        (1u64 << self.mant_bits) - 1
    }
    pub fn exp_max_field(&self) -> u64 {
        (1u64 << self.exp_bits) - 1
    }
    pub fn inf_bits(&self) -> u64 {
        self.exp_max_field() << self.mant_bits
    }
    pub fn max_finite_bits(&self) -> u64 {
        self.inf_bits() - 1
    }
    pub fn abs(&self, bits: u64) -> u64 {
        bits & !self.sign_mask()
    }
    pub fn is_neg(&self, bits: u64) -> bool {
        bits & self.sign_mask() != 0
    }
    pub fn classify(&self, bits: u64) -> Class {
        let a = self.abs(bits);
        let ef = a >> self.mant_bits;
        let mf = a & self.mant_mask();
        if ef == self.exp_max_field() {
            if mf == 0 {
                Class::Inf
            } else {
                Class::Nan
            }
        } else if ef == 0 {
            if mf == 0 {
                Class::Zero
            } else {
                Class::Finite(mf, self.emin())
            }
        } else {
            Class::Finite(mf | (1u64 << self.mant_bits), self.emin() + ef as i64 - 1)
        }
    }
    pub fn is_nan(&self, bits: u64) -> bool {
        self.classify(bits) == Class::Nan
    }
    pub fn is_finite(&self, bits: u64) -> bool {
        matches!(self.classify(bits), Class::Zero | Class::Finite(..))
    }
}

/// Non-negative rational num/den (den > 0).
#[derive(Clone, Debug)]
pub struct Rat {
    pub num: Big,
    pub den: Big,
}

/// Compare num/den with k * 2^s.
pub fn cmp_scaled(r: &Rat, k: u64, s: i64) -> Ordering {
    let mut rhs = r.den.clone();
    rhs.mul_small(k);
    if s >= 0 {
        r.num.cmp(&rhs.shl(s as u64))
    } else {
        r.num.shl((-s) as u64).cmp(&rhs)
    }
}

/// Is `abs_bits` (sign bit clear) the correctly rounded (nearest, ties to even) image of the
/// non-negative rational `r`? Overflow => inf, underflow => zero / subnormal.
pub fn is_correctly_rounded(f: Fmt, r: &Rat, abs_bits: u64) -> bool {
    match f.classify(abs_bits) {
        Class::Nan => false,
        Class::Inf => {
            // r >= (2*mmax+1) * 2^(emax-1)
            let (mmax, emax) = match f.classify(f.max_finite_bits()) {
                Class::Finite(m, e) => (m, e),
                _ => unreachable!(),
            };
            cmp_scaled(r, 2 * mmax + 1, emax - 1) != Ordering::Less
        }
        Class::Zero => {
            // r <= 2^(emin-1)  (tie goes to even = zero)
            cmp_scaled(r, 1, f.emin() - 1) != Ordering::Greater
        }
        Class::Finite(m, e) => {
            let even = m & 1 == 0;
            // upper midpoint
            let up = cmp_scaled(r, 2 * m + 1, e - 1);
            if up == Ordering::Greater || (up == Ordering::Equal && !even) {
                return false;
            }
            // lower midpoint
            let lo = if m == (1u64 << f.mant_bits) && e > f.emin() {
                cmp_scaled(r, 4 * m - 1, e - 2)
            } else {
                cmp_scaled(r, 2 * m - 1, e - 1)
            };
            if lo == Ordering::Less || (lo == Ordering::Equal && !even) {
                return false;
            }
            true
        }
    }
}

/// Correctly rounded abs bits for r by bisection on the (monotone) bit pattern order.
/// Slow (≈ 64 predicate evaluations); used for reporting and for small generators.
pub fn round_nearest_even(f: Fmt, r: &Rat) -> u64 {
    // find smallest bits b in [0, inf] such that r <= upper midpoint of b (i.e. r rounds to <= b)
    let (mut lo, mut hi) = (0u64, f.inf_bits());
    while lo < hi {
        let mid = lo + (hi - lo) / 2;
        if rounds_at_or_below(f, r, mid) {
            hi = mid;
        } else {
            lo = mid + 1;
        }
    }
    lo
}

fn rounds_at_or_below(f: Fmt, r: &Rat, abs_bits: u64) -> bool {
    match f.classify(abs_bits) {
        Class::Inf | Class::Nan => true,
        Class::Zero => cmp_scaled(r, 1, f.emin() - 1) != Ordering::Greater,
        Class::Finite(m, e) => {
            let up = cmp_scaled(r, 2 * m + 1, e - 1);
            up == Ordering::Less || (up == Ordering::Equal && m & 1 == 0)
        }
    }
}

/// Exact value of digits * radix^exp as a rational. `pt` must be a table for `radix`.
pub fn rat_from(digits: &Big, pt: &mut PowTable, exp: i64) -> Rat {
    if exp >= 0 {
        Rat { num: digits.mul(pt.get(exp as u64)), den: Big::from_u64(1) }
    } else {
        Rat { num: digits.clone(), den: pt.get((-exp) as u64).clone() }
    }
}

/// Outcome of a magnitude pre-check that avoids building astronomically large powers.
#[derive(Clone, Copy, Debug, PartialEq, Eq)]
pub enum Magnitude {
    Zero,
    SurelyZero,
    SurelyInf,
    Compute,
}

/// value = D * radix^scale * base^exp, where D is a non-zero integer of exactly `ndigits`
/// radix digits (no leading zeros). Conservative log2 bounds decide whether the value surely
/// overflows, surely rounds to zero, or must be computed exactly.
pub fn magnitude_class(
    f: Fmt,
    is_zero: bool,
    ndigits: u64,
    radix: u32,
    scale: i128,
    base: u32,
    exp: i128,
) -> Magnitude {
    if is_zero {
        return Magnitude::Zero;
    }
    let fl = |x: u32| 31 - x.leading_zeros() as i128;
    let cl = |x: u32| if x.is_power_of_two() { fl(x) } else { fl(x) + 1 };
    let lo_term = |e: i128, b: u32| if e >= 0 { e * fl(b) } else { e * cl(b) };
    let hi_term = |e: i128, b: u32| if e >= 0 { e * cl(b) } else { e * fl(b) };
    let lo = (ndigits as i128 - 1) * fl(radix) + lo_term(scale, radix) + lo_term(exp, base);
    let hi = (ndigits as i128) * cl(radix) + hi_term(scale, radix) + hi_term(exp, base);
    let emax = f.bias() as i128 + 1; // 2^emax overflows
    let tiny = f.emin() as i128 - 1; // values < 2^(emin-1) round to zero
    if lo >= emax + 1 {
        Magnitude::SurelyInf
    } else if hi <= tiny - 1 {
        Magnitude::SurelyZero
    } else {
        Magnitude::Compute
    }
}

pub fn next_up(f: Fmt, abs_bits: u64) -> u64 {
    let _ = f;
    abs_bits + 1
}

pub fn f64_bits_of(f: Fmt, abs_bits: u64, neg: bool) -> u64 {
    abs_bits | if neg { f.sign_mask() } else { 0 }
}

pub fn self_check() -> Result<(), String> {
    // compare with std's (exact) decimal parser on a grid of decimal strings
    let mut pt = PowTable::new(10);
    let ws: [u64; 14] = [
        1,
        2,
        3,
        5,
        7,
        9,
        17,
        123,
        9007199254740993,
        9007199254740992,
        9007199254740991,
        17976931348623157,
        17976931348623158,
        4940656458412465,
    ];
    for &w in &ws {
        for q in (-345i64..=310).step_by(1) {
            let s = format!("{w}e{q}");
            let r = rat_from(&Big::from_u64(w), &mut pt, q);
            let e64 = s.parse::<f64>().unwrap().to_bits();
            let e32 = s.parse::<f32>().unwrap().to_bits() as u64;
            if !is_correctly_rounded(F64, &r, e64) {
                return Err(format!("f64 predicate rejects std value for {s}"));
            }
            if !is_correctly_rounded(F32, &r, e32) {
                return Err(format!("f32 predicate rejects std value for {s}"));
            }
            for d in [1u64, 2] {
                if e64 >= d && is_correctly_rounded(F64, &r, e64 - d) {
                    return Err(format!("f64 predicate accepts neighbour -{d} for {s}"));
                }
                if e64 + d <= F64.inf_bits() && is_correctly_rounded(F64, &r, e64 + d) {
                    return Err(format!("f64 predicate accepts neighbour +{d} for {s}"));
                }
                if e32 >= d && is_correctly_rounded(F32, &r, e32 - d) {
                    return Err(format!("f32 predicate accepts neighbour -{d} for {s}"));
                }
                if e32 + d <= F32.inf_bits() && is_correctly_rounded(F32, &r, e32 + d) {
                    return Err(format!("f32 predicate accepts neighbour +{d} for {s}"));
                }
            }
            if q % 23 == 0 {
                if round_nearest_even(F64, &r) != e64 {
                    return Err(format!("f64 rne {s}"));
                }
                if round_nearest_even(F32, &r) != e32 {
                    return Err(format!("f32 rne {s}"));
                }
            }
        }
    }
    // exact ties
    // 2^53 + 1 -> ties to even 2^53
    let r = Rat { num: Big::from_u64((1u64 << 53) + 1), den: Big::from_u64(1) };
    if round_nearest_even(F64, &r) != (9007199254740992.0f64).to_bits() {
        return Err("tie 2^53+1".into());
    }
    let r = Rat { num: Big::from_u64((1u64 << 53) + 3), den: Big::from_u64(1) };
    if round_nearest_even(F64, &r) != (9007199254740996.0f64).to_bits() {
        return Err("tie 2^53+3".into());
    }
    // halfway to min subnormal -> zero ; just above -> min subnormal
    let r = Rat { num: Big::from_u64(1), den: Big::from_u64(1).shl(1075) };
    if round_nearest_even(F64, &r) != 0 {
        return Err("tie 2^-1075".into());
    }
    let r = Rat { num: Big::from_u64(3), den: Big::from_u64(1).shl(1076) };
    if round_nearest_even(F64, &r) != 1 {
        return Err("3*2^-1076".into());
    }
    // overflow threshold
    let half = Big::from_u64((1u64 << 54) - 1).shl(970);
    let r = Rat { num: half.clone(), den: Big::from_u64(1) };
    if round_nearest_even(F64, &r) != F64.inf_bits() {
        return Err("overflow tie".into());
    }
    let r = Rat { num: half.sub(&Big::from_u64(1)), den: Big::from_u64(1) };
    if round_nearest_even(F64, &r) != F64.max_finite_bits() {
        return Err("below overflow tie".into());
    }
    Ok(())
}
