//! Generators for the named input spaces of DESIGN.md §4 (all deterministic, all complete for
//! their stated parameters).

use crate::big::Big;
use crate::float::{Class, Fmt};

/// A number given by digits * base^exp (digits in `radix`), used as parser input.
#[derive(Clone, Debug)]
pub struct NumCase {
    /// significand digits (ASCII, radix digits, no sign, no point)
    pub digits: Vec<u8>,
    /// exponent (power of the exponent base) applying to the last digit
    pub exp: i64,
    pub tag: &'static str,
}

/// Mantissa patterns P for a format with `mb` explicit mantissa bits.
pub fn mant_patterns(mb: u32, level: u32) -> Vec<u64> {
    let ones = (1u64 << mb) - 1;
    let mut v = vec![
        0,
        1,
        2,
        ones,
        ones - 1,
        1u64 << (mb - 1),
        (1u64 << (mb - 1)) - 1,
        0x5555_5555_5555_5555 & ones,
    ];
    if level >= 1 {
        v.push(0xAAAA_AAAA_AAAA_AAAA & ones);
        v.push(3);
        v.push((1u64 << (mb - 1)) + 1);
        for b in 0..mb {
            v.push(1u64 << b); // walking one
            v.push(ones ^ (1u64 << b)); // walking zero
        }
    }
    if level >= 2 {
        let k = 6;
        for low in 0..(1u64 << k) {
            v.push(low);
            v.push(ones - low);
            v.push(low << (mb - k));
            v.push((low << (mb - k)) | ((1u64 << (mb - k)) - 1));
        }
    }
    if level >= 3 {
        let k = 10;
        for low in 0..(1u64 << k) {
            v.push(low);
            v.push(ones - low);
            v.push(low << (mb - k));
            v.push((low << (mb - k)) | ((1u64 << (mb - k)) - 1));
        }
    }
    v.sort_unstable();
    v.dedup();
    v
}

/// BIN(T, P): every exponent field (0 = subnormal .. max-1) x mantissa patterns; positive bits.
pub fn bin_values(f: Fmt, level: u32) -> Vec<u64> {
    let pats = mant_patterns(f.mant_bits, level);
    let mut out = Vec::new();
    for ef in 0..f.exp_max_field() {
        for &p in &pats {
            let b = (ef << f.mant_bits) | p;
            if b != 0 {
                out.push(b);
            }
        }
    }
    // subnormal widths: 2^k and 2^k - 1 patterns are in walking-one; add all-ones below each bit
    for k in 1..f.mant_bits {
        out.push((1u64 << k) - 1);
    }
    out.sort_unstable();
    out.dedup();
    out
}

/// Exact expansion of the midpoint between the positive float `abs_bits` and its successor in an
/// even `radix`: returns (digits, exp) with value = digits * radix^exp exactly (radix must be
/// even so that the expansion is finite), digits without trailing zeros.
pub fn midpoint_expansion(f: Fmt, abs_bits: u64, radix: u32) -> Option<(Vec<u8>, i64)> {
    let (m, e) = match f.classify(abs_bits) {
        Class::Zero => (0, f.emin()),
        Class::Finite(m, e) => (m, e),
        _ => return None,
    };
    exact_expansion(2 * m + 1, e - 1, radix)
}

/// Exact expansion of k * 2^s in an even radix.
pub fn exact_expansion(k: u64, s: i64, radix: u32) -> Option<(Vec<u8>, i64)> {
    if radix % 2 != 0 {
        return None;
    }
    let v2 = radix.trailing_zeros() as i64;
    let big = Big::from_u64(k);
    let (num, mut exp) = if s >= 0 {
        (big.shl(s as u64), 0i64)
    } else {
        // k / 2^t = k * radix^j / 2^t / radix^j, j = ceil(t / v2)
        let t = -s;
        let j = (t + v2 - 1) / v2;
        let scaled = big.mul(&Big::pow(radix as u64, j as u64));
        debug_assert!(scaled.trailing_zeros() >= t as u64);
        (scaled.shr(t as u64), -j)
    };
    let mut d = num.to_digits(radix);
    while d.len() > 1 && *d.last().unwrap() == b'0' {
        d.pop();
        exp += 1;
    }
    Some((d, exp))
}

/// Truncated expansion of k * 2^s in any radix to `n` significant digits (floor), returns
/// (digits, exp, exact?).
pub fn truncated_expansion(k: u64, s: i64, radix: u32, n: usize) -> (Vec<u8>, i64, bool) {
    // find j such that k*2^s*radix^j has about n digits: work with rationals
    let big = Big::from_u64(k);
    // approximate number of radix digits of k*2^s
    let log2r = (radix as f64).log2();
    let mag = ((64 - k.leading_zeros()) as f64 + s as f64) / log2r; // ~ digits before point
    let mut j = n as i64 - mag.floor() as i64 + 1; // scale so we have >= n digits
    loop {
        // value * radix^j = k * 2^s * radix^j
        let (num, den) = {
            let mut num = big.clone();
            let mut den = Big::from_u64(1);
            if s >= 0 {
                num = num.shl(s as u64);
            } else {
                den = den.shl((-s) as u64);
            }
            if j >= 0 {
                num = num.mul(&Big::pow(radix as u64, j as u64));
            } else {
                den = den.mul(&Big::pow(radix as u64, (-j) as u64));
            }
            (num, den)
        };
        let (q, rem_zero) = div_floor(&num, &den);
        let d = q.to_digits(radix);
        if d.len() < n {
            j += (n - d.len()) as i64 + 1;
            continue;
        }
        let extra = d.len() - n;
        let exact = rem_zero && d[n..].iter().all(|&c| c == b'0');
        return (d[..n].to_vec(), -j + extra as i64, exact);
    }
}

/// floor(num/den) by binary long division (slow, generator use only). Returns (q, rem == 0).
pub fn div_floor(num: &Big, den: &Big) -> (Big, bool) {
    use std::cmp::Ordering;
    if num.cmp(den) == Ordering::Less {
        return (Big::zero(), num.is_zero());
    }
    let shift = num.bit_length() - den.bit_length();
    let mut rem = num.clone();
    let mut q = Big::zero();
    let mut i = shift as i64;
    while i >= 0 {
        let d = den.shl(i as u64);
        if rem.cmp(&d) != Ordering::Less {
            rem = rem.sub(&d);
            q = q.add(&Big::from_u64(1).shl(i as u64));
        }
        i -= 1;
    }
    (q, rem.is_zero())
}

/// Continued-fraction hard cases: significands `w` in [w_lo, w_hi] such that w * radix^q is very
/// close to k * 2^s for an odd k with exactly `kbits` bits (kbits = mant_bits + 2 gives the
/// midpoints between adjacent floats). Returns up to `per` candidates (w, rel-distance rank order
/// is by convergent index, deepest first).
pub fn cf_hard(radix: u32, q: i64, kbits: u32, w_lo: &Big, w_hi: &Big, per: usize) -> Vec<Big> {
    use std::cmp::Ordering;
    // beta = 2^s / radix^q with s chosen so that w/k = beta has w in [w_lo,w_hi] for k ~ 2^kbits.
    // w * radix^q = k * 2^s  =>  w / k = 2^s / radix^q.
    // Choose s so that beta ~ w_mid / 2^(kbits-1).
    let rq_bits: i64 = {
        // log2(radix^q) approx, exact enough via bit_length
        if q >= 0 {
            Big::pow(radix as u64, q as u64).bit_length() as i64
        } else {
            -(Big::pow(radix as u64, (-q) as u64).bit_length() as i64) + 1
        }
    };
    let mut out: Vec<Big> = Vec::new();
    let wbits = w_hi.bit_length() as i64;
    // try the few s values that can place w in range
    for ds in -2..=2i64 {
        let s = rq_bits + (wbits - kbits as i64) + ds;
        // beta = num/den
        let (mut num, mut den) = (Big::from_u64(1), Big::from_u64(1));
        if s >= 0 {
            num = num.shl(s as u64);
        } else {
            den = den.shl((-s) as u64);
        }
        if q >= 0 {
            den = den.mul(&Big::pow(radix as u64, q as u64));
        } else {
            num = num.mul(&Big::pow(radix as u64, (-q) as u64));
        }
        // convergents p/qd of num/den
        let (mut a, mut b) = (num.clone(), den.clone());
        let (mut p0, mut p1) = (Big::from_u64(0), Big::from_u64(1)); // p_{-2}, p_{-1}
        let (mut q0, mut q1) = (Big::from_u64(1), Big::from_u64(0));
        let klim = Big::from_u64(1).shl(kbits as u64);
        let kmin = Big::from_u64(1).shl(kbits as u64 - 1);
        let mut convs: Vec<(Big, Big)> = Vec::new();
        for _ in 0..200 {
            if b.is_zero() {
                break;
            }
            let (t, _) = div_floor(&a, &b);
            let r = a.sub(&t.mul(&b));
            a = b;
            b = r;
            let p2 = t.mul(&p1).add(&p0);
            let q2 = t.mul(&q1).add(&q0);
            p0 = p1;
            q0 = q1;
            p1 = p2;
            q1 = q2;
            if q1.cmp(&klim) != Ordering::Less {
                break;
            }
            convs.push((p1.clone(), q1.clone()));
        }
        for (p, qd) in convs.iter().rev() {
            if qd.is_even() || p.is_zero() {
                continue;
            }
            // c odd with kmin <= c*qd < klim and w_lo <= c*p <= w_hi
            let (cmin_k, _) = div_floor(&kmin.add(qd).sub(&Big::from_u64(1)), qd);
            let (cmax_k, _) = div_floor(&klim.sub(&Big::from_u64(1)), qd);
            let (cmin_w, _) = div_floor(&w_lo.add(p).sub(&Big::from_u64(1)), p);
            let (cmax_w, _) = div_floor(w_hi, p);
            let cmin = if cmin_k.cmp(&cmin_w) == Ordering::Less { cmin_w } else { cmin_k };
            let cmax = if cmax_k.cmp(&cmax_w) == Ordering::Less { cmax_k } else { cmax_w };
            if cmin.cmp(&cmax) == Ordering::Greater || cmin.is_zero() {
                continue;
            }
            let mut cs: Vec<Big> = Vec::new();
            let mut lo = cmin.clone();
            if lo.is_even() {
                lo.add_small(1);
            }
            let mut hi = cmax.clone();
            if hi.is_even() {
                hi = hi.sub(&Big::from_u64(1));
            }
            if lo.cmp(&hi) != Ordering::Greater {
                cs.push(lo.clone());
                if lo != hi {
                    cs.push(hi.clone());
                    let mut mid = lo.add(&hi).shr(1);
                    if mid.is_even() {
                        mid.add_small(1);
                    }
                    if mid != lo && mid != hi {
                        cs.push(mid);
                    }
                }
            }
            for c in cs {
                let w = c.mul(p);
                if !out.contains(&w) {
                    out.push(w);
                }
            }
            if out.len() >= per * 3 {
                break;
            }
        }
    }
    out.truncate(per * 3);
    out
}

/// All strings of length <= `max_len` over `alpha`, depth first; calls `f(&string)` for each
/// (including the empty string). Returns (states, transitions).
pub fn for_each_string<F: FnMut(&[u8])>(alpha: &[&[u8]], max_len: usize, f: &mut F) -> (u64, u64) {
    fn rec<F: FnMut(&[u8])>(
        alpha: &[&[u8]],
        s: &mut Vec<u8>,
        depth: usize,
        f: &mut F,
        states: &mut u64,
    ) {
        f(s);
        *states += 1;
        if depth == 0 {
            return;
        }
        for t in alpha {
            let n = s.len();
            s.extend_from_slice(t);
            rec(alpha, s, depth - 1, f, states);
            s.truncate(n);
        }
    }
    let mut s = Vec::new();
    let mut states = 0;
    rec(alpha, &mut s, max_len, f, &mut states);
    (states, states - 1)
}

/// Enumerate the subtree of strings whose first tokens are fixed by `prefix_idx` (for
/// parallel partitioning of the prefix tree). The root/prefix nodes themselves are visited by
/// the caller.
pub fn for_each_string_under<F: FnMut(&[u8])>(
    alpha: &[&[u8]],
    prefix: &[u8],
    depth_left: usize,
    f: &mut F,
) -> u64 {
    fn rec<F: FnMut(&[u8])>(alpha: &[&[u8]], s: &mut Vec<u8>, depth: usize, f: &mut F, n: &mut u64) {
        f(s);
        *n += 1;
        if depth == 0 {
            return;
        }
        for t in alpha {
            let l = s.len();
            s.extend_from_slice(t);
            rec(alpha, s, depth - 1, f, n);
            s.truncate(l);
        }
    }
    let mut s = prefix.to_vec();
    let mut n = 0;
    rec(alpha, &mut s, depth_left, f, &mut n);
    n
}

/// Number of strings of length <= l over an alphabet of size a.
pub fn tree_size(a: u64, l: u32) -> u64 {
    (0..=l).map(|i| a.pow(i)).sum()
}

/// INT(T, r): structured integer magnitudes for a type with `bits` value bits (unsigned view).
/// Returns magnitudes <= max.
pub fn int_magnitudes(max: u128, radix: u32, sparse_nonzero: usize) -> Vec<u128> {
    let mut v: Vec<u128> = vec![0, 1, 2, max, max - 1, max / 2, max / 2 + 1];
    // powers of radix +-1 and powers of two +-1
    let mut p: u128 = 1;
    loop {
        for d in [p.wrapping_sub(1), p, p.saturating_add(1)] {
            if d <= max {
                v.push(d);
            }
        }
        match p.checked_mul(radix as u128) {
            Some(n) if n <= max => p = n,
            _ => break,
        }
    }
    let mut j = 0;
    while j < 128 {
        let p = 1u128 << j;
        for d in [p.wrapping_sub(1), p, p.saturating_add(1)] {
            if d <= max {
                v.push(d);
            }
        }
        j += 1;
    }
    // all-(r-1) numerals and sparse numerals
    let mut ndig = 0;
    let mut t = max;
    while t > 0 {
        t /= radix as u128;
        ndig += 1;
    }
    let pows: Vec<u128> = (0..ndig).map(|i| (radix as u128).pow(i as u32)).collect();
    let ds = [1u128, radix as u128 - 1];
    // sparse numerals with 1..=sparse_nonzero non-zero positions
    for i in 0..ndig {
        for &a in &ds {
            let x = a.checked_mul(pows[i]);
            if let Some(x) = x {
                if x <= max {
                    v.push(x);
                }
                if sparse_nonzero >= 2 {
                    for j2 in 0..i {
                        for &b in &ds {
                            if let Some(y) = b.checked_mul(pows[j2]).and_then(|y| y.checked_add(x)) {
                                if y <= max {
                                    v.push(y);
                                }
                                if sparse_nonzero >= 3 {
                                    for j3 in 0..j2 {
                                        for &c in &ds {
                                            if let Some(z) =
                                                c.checked_mul(pows[j3]).and_then(|z| z.checked_add(y))
                                            {
                                                if z <= max {
                                                    v.push(z);
                                                }
                                            }
                                        }
                                    }
                                }
                            }
                        }
                    }
                }
            }
        }
    }
    // all-max-digit numerals of every length
    let mut acc: u128 = 0;
    for _ in 0..ndig {
        match acc.checked_mul(radix as u128).and_then(|x| x.checked_add(radix as u128 - 1)) {
            Some(n) if n <= max => {
                acc = n;
                v.push(n);
            }
            _ => break,
        }
    }
    v.sort_unstable();
    v.dedup();
    v
}
