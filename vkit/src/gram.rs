//! R-gram: reference number grammar interpreted from a runtime format descriptor. Rules come
//! from the one-line statements on the flag constants (format_flags.rs), the getter docs of
//! NumberFormatBuilder and docs/DigitSeparators.md. Where the documentation is silent or
//! self-contradictory the answer is `Unspecified` (counted, not judged).

use crate::big::digit_value;

#[derive(Clone, Debug, Default, PartialEq, Eq)]
pub struct FmtDesc {
    pub name: &'static str,
    pub mantissa_radix: u32,
    pub exponent_base: u32,
    pub exponent_radix: u32,
    /// 0 = none
    pub sep: u8,
    pub prefix: u8,
    pub suffix: u8,
    pub required_integer_digits: bool,
    pub required_fraction_digits: bool,
    pub required_exponent_digits: bool,
    pub required_mantissa_digits: bool,
    pub no_positive_mantissa_sign: bool,
    pub required_mantissa_sign: bool,
    pub no_exponent_notation: bool,
    pub no_positive_exponent_sign: bool,
    pub required_exponent_sign: bool,
    pub no_exponent_without_fraction: bool,
    pub no_special: bool,
    pub case_sensitive_special: bool,
    pub no_integer_leading_zeros: bool,
    pub no_float_leading_zeros: bool,
    pub required_exponent_notation: bool,
    pub case_sensitive_exponent: bool,
    pub case_sensitive_base_prefix: bool,
    pub case_sensitive_base_suffix: bool,
    // separator flags: [integer, fraction, exponent]
    pub internal: [bool; 3],
    pub leading: [bool; 3],
    pub trailing: [bool; 3],
    pub consecutive: [bool; 3],
    pub special_sep: bool,
}

impl FmtDesc {
    pub fn standard() -> FmtDesc {
        FmtDesc {
            name: "STANDARD",
            mantissa_radix: 10,
            exponent_base: 10,
            exponent_radix: 10,
            required_exponent_digits: true,
            required_mantissa_digits: true,
            ..Default::default()
        }
    }
    pub fn has_sep_flags(&self) -> bool {
        (0..3).any(|i| self.internal[i] || self.leading[i] || self.trailing[i] || self.consecutive[i]) || self.special_sep
    }
}

#[derive(Clone, Debug)]
pub struct Punct {
    pub decimal_point: u8,
    pub exponent: u8,
    pub nan: Option<Vec<u8>>,
    pub inf: Option<Vec<u8>>,
    pub infinity: Option<Vec<u8>>,
}

impl Punct {
    pub fn standard() -> Punct {
        Punct {
            decimal_point: b'.',
            exponent: b'e',
            nan: Some(b"NaN".to_vec()),
            inf: Some(b"inf".to_vec()),
            infinity: Some(b"infinity".to_vec()),
        }
    }
}

#[derive(Clone, Copy, Debug, PartialEq, Eq)]
pub enum SpecialKind {
    Nan,
    Inf,
}

#[derive(Clone, Debug, PartialEq, Eq)]
pub struct Num {
    pub neg: bool,
    pub int_digits: Vec<u8>,
    pub frac_digits: Vec<u8>,
    pub has_point: bool,
    pub has_exp: bool,
    /// saturated to +-10^30
    pub exp: i128,
}

#[derive(Clone, Debug, PartialEq, Eq)]
pub enum Gram {
    Reject,
    Unspecified,
    Number(Num),
    Special(SpecialKind, bool),
}

fn is_digit(c: u8, radix: u32) -> bool {
    matches!(digit_value(c), Some(d) if d < radix)
}

fn eq_char(c: u8, want: u8, case_sensitive: bool) -> bool {
    if case_sensitive {
        c == want
    } else {
        c.eq_ignore_ascii_case(&want)
    }
}

fn eq_str(s: &[u8], want: &[u8], case_sensitive: bool) -> bool {
    s.len() == want.len() && s.iter().zip(want).all(|(&a, &b)| eq_char(a, b, case_sensitive))
}

/// Does `s` (sign already removed) equal one of the configured special strings?
pub fn match_special(d: &FmtDesc, p: &Punct, s: &[u8]) -> Option<SpecialKind> {
    if d.no_special {
        return None;
    }
    let cs = d.case_sensitive_special;
    if let Some(n) = &p.nan {
        if eq_str(s, n, cs) {
            return Some(SpecialKind::Nan);
        }
    }
    if let Some(n) = &p.inf {
        if eq_str(s, n, cs) {
            return Some(SpecialKind::Inf);
        }
    }
    if let Some(n) = &p.infinity {
        if eq_str(s, n, cs) {
            return Some(SpecialKind::Inf);
        }
    }
    None
}

/// Complete float grammar for separator-free input (inputs containing the separator byte of a
/// format are the business of C13, not of this function: they are answered `Unspecified`
/// when the format has a separator).
pub fn float_complete(d: &FmtDesc, p: &Punct, s: &[u8]) -> Gram {
    if d.sep != 0 && s.contains(&d.sep) {
        return Gram::Unspecified;
    }
    // sign
    let mut i = 0;
    let mut neg = false;
    let mut has_sign = false;
    if i < s.len() && (s[i] == b'+' || s[i] == b'-') {
        neg = s[i] == b'-';
        has_sign = true;
        if s[i] == b'+' && d.no_positive_mantissa_sign {
            return Gram::Reject;
        }
        i += 1;
    }
    if d.required_mantissa_sign && !has_sign {
        return Gram::Reject;
    }
    let body = &s[i..];
    if body.is_empty() && d.required_exponent_notation {
        // whatever an empty mantissa means, "valid floats must contain an exponent notation
        // character" is not met
        return Gram::Reject;
    }
    if body.is_empty() && !d.required_mantissa_digits && !d.required_integer_digits {
        // lone sign without required digits: not documented. Empty string: the builder docs say
        // "empty strings are still invalid" but lexical's own format tests (issue_96_tests.rs)
        // assert Ok((0.0, 0)) -- the two sources contradict each other, so it is not judged.
        return Gram::Unspecified;
    }
    // a number takes precedence over a special string
    let num = number_body(d, p, body, neg);
    match num {
        Gram::Number(_) | Gram::Unspecified => num,
        _ => match match_special(d, p, body) {
            Some(k) => Gram::Special(k, neg),
            None => Gram::Reject,
        },
    }
}

fn number_body(d: &FmtDesc, p: &Punct, s: &[u8], neg: bool) -> Gram {
    let mut i = 0;
    let n = s.len();
    // base prefix: "0" + prefix char
    let mut had_prefix = false;
    if d.prefix != 0 && n >= 2 && s[0] == b'0' && eq_char(s[1], d.prefix, d.case_sensitive_base_prefix) {
        had_prefix = true;
        i = 2;
    }
    let int_start = i;
    while i < n && is_digit(s[i], d.mantissa_radix) {
        i += 1;
    }
    let int_digits = s[int_start..i].to_vec();
    let mut frac_digits = Vec::new();
    let mut has_point = false;
    if i < n && s[i] == p.decimal_point {
        has_point = true;
        i += 1;
        let fs = i;
        while i < n && is_digit(s[i], d.mantissa_radix) {
            i += 1;
        }
        frac_digits = s[fs..i].to_vec();
    }
    let mut has_exp = false;
    let mut exp: i128 = 0;
    let mut exp_digits = 0usize;
    let mut exp_sign: Option<u8> = None;
    if i < n && eq_char(s[i], p.exponent, d.case_sensitive_exponent) {
        has_exp = true;
        i += 1;
        if i < n && (s[i] == b'+' || s[i] == b'-') {
            exp_sign = Some(s[i]);
            i += 1;
        }
        let lim: i128 = 10i128.pow(30);
        while i < n && is_digit(s[i], d.exponent_radix) {
            exp = (exp * d.exponent_radix as i128 + digit_value(s[i]).unwrap() as i128).min(lim);
            exp_digits += 1;
            i += 1;
        }
        if exp_sign == Some(b'-') {
            exp = -exp;
        }
    }
    // base suffix
    let mut had_suffix = false;
    if d.suffix != 0 && i < n && eq_char(s[i], d.suffix, d.case_sensitive_base_suffix) {
        had_suffix = true;
        i += 1;
    }
    if i != n {
        return Gram::Reject;
    }
    // --- flag checks (documented one-liners) ---
    let mant_digits = int_digits.len() + frac_digits.len();
    if d.required_integer_digits && int_digits.is_empty() {
        return Gram::Reject;
    }
    if d.required_fraction_digits && has_point && frac_digits.is_empty() {
        return Gram::Reject;
    }
    if d.required_mantissa_digits && mant_digits == 0 {
        return Gram::Reject;
    }
    if has_exp {
        if d.no_exponent_notation {
            return Gram::Reject;
        }
        if d.required_exponent_digits && exp_digits == 0 {
            return Gram::Reject;
        }
        if exp_sign == Some(b'+') && d.no_positive_exponent_sign {
            return Gram::Reject;
        }
        if d.required_exponent_sign && exp_sign.is_none() {
            // a sign is required before the exponent digits; with no digits at all the
            // documentation does not say whether the missing sign matters
            if exp_digits == 0 {
                return Gram::Unspecified;
            }
            return Gram::Reject;
        }
        if d.no_exponent_without_fraction {
            if !has_point {
                return Gram::Reject;
            }
            if frac_digits.is_empty() {
                // flag constant: "only checks if a decimal point precedes the exponent";
                // getter table: `1.e3` invalid. Contradictory => not judged.
                return Gram::Unspecified;
            }
        }
        if exp_sign.is_some() && exp_digits == 0 && !d.required_exponent_digits {
            // `1e+` without required exponent digits: undocumented
            return Gram::Unspecified;
        }
    } else if d.required_exponent_notation {
        return Gram::Reject;
    }
    if d.no_float_leading_zeros && !had_prefix && int_digits.len() > 1 && int_digits[0] == b'0' {
        return Gram::Reject;
    }
    // undocumented corners
    if had_prefix && mant_digits == 0 {
        return Gram::Unspecified; // "0x" alone / "0x." : is the 0 a digit or part of the prefix?
    }
    if had_prefix && d.no_float_leading_zeros {
        return Gram::Unspecified; // interplay of prefix and leading-zero rule is not documented
    }
    if had_suffix && mant_digits == 0 {
        return Gram::Unspecified;
    }
    if d.prefix != 0 && !had_prefix && !int_digits.is_empty() && int_digits[0] == b'0' && int_digits.len() == 1 && !has_point && !has_exp && had_suffix {
        return Gram::Unspecified;
    }
    if mant_digits == 0 && !has_point && !has_exp {
        // empty body: documented invalid when mantissa digits are required (handled above);
        // without the requirement the builder docs say "empty strings are still invalid", but
        // say nothing about a lone sign
        if had_prefix || had_suffix {
            return Gram::Unspecified;
        }
        return Gram::Reject;
    }
    if d.mantissa_radix != d.exponent_base && !frac_digits.is_empty() && mant_digits == 0 {
        return Gram::Unspecified;
    }
    Gram::Number(Num { neg, int_digits, frac_digits, has_point, has_exp, exp })
}

/// Complete integer grammar (separator-free input).
#[derive(Clone, Debug, PartialEq, Eq)]
pub enum IntGram {
    Reject,
    Unspecified,
    /// sign, digits (may be empty only when digits are not required)
    Number(bool, Vec<u8>),
}

pub fn integer_complete(d: &FmtDesc, s: &[u8], signed: bool) -> IntGram {
    if d.sep != 0 && s.contains(&d.sep) {
        return IntGram::Unspecified;
    }
    let mut i = 0;
    let mut neg = false;
    let mut has_sign = false;
    if i < s.len() && s[i] == b'+' {
        if d.no_positive_mantissa_sign {
            return IntGram::Reject;
        }
        has_sign = true;
        i += 1;
    } else if i < s.len() && s[i] == b'-' {
        if !signed {
            return IntGram::Reject;
        }
        neg = true;
        has_sign = true;
        i += 1;
    }
    if d.required_mantissa_sign && !has_sign {
        return IntGram::Reject;
    }
    let body = &s[i..];
    let n = body.len();
    let mut j = 0;
    let mut had_prefix = false;
    if d.prefix != 0 && n >= 2 && body[0] == b'0' && eq_char(body[1], d.prefix, d.case_sensitive_base_prefix) {
        had_prefix = true;
        j = 2;
    }
    let ds = j;
    while j < n && is_digit(body[j], d.mantissa_radix) {
        j += 1;
    }
    let digits = body[ds..j].to_vec();
    let mut had_suffix = false;
    if d.suffix != 0 && j < n && eq_char(body[j], d.suffix, d.case_sensitive_base_suffix) {
        had_suffix = true;
        j += 1;
    }
    if j != n {
        return IntGram::Reject;
    }
    if digits.is_empty() {
        if had_prefix || had_suffix {
            return IntGram::Unspecified;
        }
        if d.required_integer_digits || d.required_mantissa_digits {
            return IntGram::Reject;
        }
        // empty input without required digits: the parser docs say "can have cases where we
        // don't require digits"; the value would be 0. Undocumented for the user => not judged.
        return IntGram::Unspecified;
    }
    if d.no_integer_leading_zeros && !had_prefix && digits.len() > 1 && digits[0] == b'0' {
        return IntGram::Reject;
    }
    if had_prefix && d.no_integer_leading_zeros {
        return IntGram::Unspecified;
    }
    IntGram::Number(neg, digits)
}

// ---------------------------------------------------------------------------------------------
// Digit separators (C13): classification of separator runs in a string, following
// docs/DigitSeparators.md: inside a component (integer, fraction, exponent digits) a run of
// separators is LEADING if no digit of the component precedes it, TRAILING if none follows,
// otherwise INTERNAL; a run longer than one needs the component's consecutive flag.
// ---------------------------------------------------------------------------------------------

#[derive(Clone, Copy, Debug, PartialEq, Eq)]
pub enum SepPos {
    Leading,
    Internal,
    Trailing,
    /// no digit before and none after inside the component
    Alone,
}

#[derive(Clone, Debug, PartialEq, Eq)]
pub struct SepRun {
    /// 0 integer, 1 fraction, 2 exponent
    pub component: usize,
    pub pos: SepPos,
    pub len: usize,
    pub at: usize,
}

/// Split `s` into components and classify every separator run. Returns None when a separator
/// stands somewhere that is not inside a digit component (next to the sign of the exponent,
/// inside a prefix, ...): such strings are not judged.
pub fn classify_separators(d: &FmtDesc, p: &Punct, s: &[u8]) -> Option<Vec<SepRun>> {
    let sep = d.sep;
    let mut i = 0;
    let n = s.len();
    if i < n && (s[i] == b'+' || s[i] == b'-') {
        i += 1;
    }
    let mut runs = Vec::new();
    let mut comp = 0usize;
    // scan a component: sequence of digits/separators in the component's radix
    let mut scan = |i: &mut usize, comp: usize, radix: u32, runs: &mut Vec<SepRun>| {
        let start = *i;
        let mut j = start;
        while j < n && (is_digit(s[j], radix) || s[j] == sep) {
            j += 1;
        }
        let body = &s[start..j];
        let has_digit_before = |k: usize| body[..k].iter().any(|&c| c != sep);
        let has_digit_after = |k: usize| body[k..].iter().any(|&c| c != sep);
        let mut k = 0;
        while k < body.len() {
            if body[k] == sep {
                let rs = k;
                while k < body.len() && body[k] == sep {
                    k += 1;
                }
                let before = has_digit_before(rs);
                let after = has_digit_after(k);
                let pos = match (before, after) {
                    (false, false) => SepPos::Alone,
                    (false, true) => SepPos::Leading,
                    (true, false) => SepPos::Trailing,
                    (true, true) => SepPos::Internal,
                };
                runs.push(SepRun { component: comp, pos, len: k - rs, at: start + rs });
            } else {
                k += 1;
            }
        }
        *i = j;
    };
    scan(&mut i, comp, d.mantissa_radix, &mut runs);
    if i < n && s[i] == p.decimal_point {
        i += 1;
        comp = 1;
        scan(&mut i, comp, d.mantissa_radix, &mut runs);
    }
    if i < n && eq_char(s[i], p.exponent, d.case_sensitive_exponent) {
        i += 1;
        if i < n && s[i] == sep {
            // separator between the exponent character and a possible sign: look ahead
            let mut j = i;
            while j < n && s[j] == sep {
                j += 1;
            }
            if j < n && (s[j] == b'+' || s[j] == b'-') {
                return None;
            }
        }
        if i < n && (s[i] == b'+' || s[i] == b'-') {
            i += 1;
        }
        comp = 2;
        scan(&mut i, comp, d.exponent_radix, &mut runs);
    }
    // anything left containing a separator is outside the digit components
    if s[i..].contains(&sep) {
        return None;
    }
    Some(runs)
}

/// Is this run enabled by the flags of the format? None = not decidable from the docs.
pub fn run_enabled(d: &FmtDesc, r: &SepRun) -> Option<bool> {
    let c = r.component;
    let pos_ok = match r.pos {
        SepPos::Leading => d.leading[c],
        SepPos::Internal => d.internal[c],
        SepPos::Trailing => d.trailing[c],
        SepPos::Alone => return None,
    };
    if !pos_ok {
        return Some(false);
    }
    if r.len > 1 && !d.consecutive[c] {
        return Some(false);
    }
    Some(true)
}

pub fn self_check() -> Result<(), String> {
    let d = FmtDesc::standard();
    let p = Punct::standard();
    // STANDARD == Rust FromStr float grammar (+ special strings), on a complete string space
    let alpha: [&[u8]; 9] = [b"+", b"-", b"0", b"7", b".", b"e", b"E", b"n", b"i"];
    let mut err = None;
    crate::gen::for_each_string(&alpha, 5, &mut |s: &[u8]| {
        if err.is_some() {
            return;
        }
        let st = std::str::from_utf8(s).unwrap();
        let g = float_complete(&d, &p, s);
        let stdv = st.parse::<f64>();
        let ok = match (&g, &stdv) {
            (Gram::Number(_), Ok(v)) => !v.is_nan() && (v.is_finite() || true),
            (Gram::Reject, Err(_)) => true,
            // std accepts "inf"/"nan"/"infinity" case-insensitively as lexical's defaults do
            (Gram::Special(..), Ok(v)) => !v.is_finite(),
            _ => false,
        };
        if !ok {
            err = Some(format!("R-gram STANDARD vs FromStr on {st:?}: {:?} vs {:?}", g, stdv));
        }
    });
    if let Some(e) = err {
        return Err(e);
    }
    // separator classification examples from docs/DigitSeparators.md
    let mut ds = FmtDesc::standard();
    ds.sep = b'_';
    let cases: [(&str, usize, SepPos, usize); 12] = [
        ("_1", 0, SepPos::Leading, 1),
        ("__1.0", 0, SepPos::Leading, 2),
        ("1._0", 1, SepPos::Leading, 1),
        ("1.0e__5", 2, SepPos::Leading, 2),
        ("1_", 0, SepPos::Trailing, 1),
        ("1__.0", 0, SepPos::Trailing, 2),
        ("1.0_", 1, SepPos::Trailing, 1),
        ("1.0e5__", 2, SepPos::Trailing, 2),
        ("1_2", 0, SepPos::Internal, 1),
        ("1__2.0", 0, SepPos::Internal, 2),
        ("1.0_2", 1, SepPos::Internal, 1),
        ("1.0e5__4", 2, SepPos::Internal, 2),
    ];
    for (s, comp, pos, len) in cases {
        let r = classify_separators(&ds, &p, s.as_bytes()).ok_or_else(|| format!("classify {s}"))?;
        if r.len() != 1 || r[0].component != comp || r[0].pos != pos || r[0].len != len {
            return Err(format!("classify_separators({s}) = {:?}", r));
        }
    }
    Ok(())
}
