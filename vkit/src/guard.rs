//! Guard-page buffers: `[PROT_NONE][data pages][PROT_NONE]`. A slice handed out flush against
//! the trailing (or leading) guard makes any out-of-bounds access of >= 1 byte fault.

pub struct Guarded {
    base: *mut u8,
    total: usize,
    data: *mut u8,
    data_len: usize,
}

unsafe impl Send for Guarded {}

const PAGE: usize = 4096;

impl Guarded {
    pub fn new(max_len: usize) -> Guarded {
        let data_len = ((max_len + PAGE - 1) / PAGE).max(1) * PAGE;
        let total = data_len + 2 * PAGE;
        unsafe {
            let base = libc::mmap(
                std::ptr::null_mut(),
                total,
                libc::PROT_NONE,
                libc::MAP_PRIVATE | libc::MAP_ANONYMOUS,
                -1,
                0,
            );
            assert!(base != libc::MAP_FAILED, "mmap failed");
            let base = base as *mut u8;
            let data = base.add(PAGE);
            let rc = libc::mprotect(data as *mut _, data_len, libc::PROT_READ | libc::PROT_WRITE);
            assert!(rc == 0, "mprotect failed");
            Guarded { base, total, data, data_len }
        }
    }
    pub fn capacity(&self) -> usize {
        self.data_len
    }
    /// Slice of `len` bytes whose END touches the trailing guard page.
    pub fn tail(&mut self, len: usize) -> &mut [u8] {
        assert!(len <= self.data_len);
        unsafe { std::slice::from_raw_parts_mut(self.data.add(self.data_len - len), len) }
    }
    /// Slice of `len` bytes whose START touches the leading guard page.
    pub fn head(&mut self, len: usize) -> &mut [u8] {
        assert!(len <= self.data_len);
        unsafe { std::slice::from_raw_parts_mut(self.data, len) }
    }
    /// Whole data area (for canary fill / check).
    pub fn all(&mut self) -> &mut [u8] {
        unsafe { std::slice::from_raw_parts_mut(self.data, self.data_len) }
    }
    /// Copy `src` so that it ends at the trailing guard; returns the slice.
    pub fn place_tail(&mut self, src: &[u8]) -> &[u8] {
        let s = self.tail(src.len());
        s.copy_from_slice(src);
        s
    }
    pub fn place_head(&mut self, src: &[u8]) -> &[u8] {
        let s = self.head(src.len());
        s.copy_from_slice(src);
        s
    }
}

impl Drop for Guarded {
    fn drop(&mut self) {
        unsafe {
            libc::munmap(self.base as *mut _, self.total);
        }
    }
}
