//! R-int: integers <-> numerals in radix 2..=36 and the reference integer parser that
//! implements the statement of C04 literally.

use crate::big::{digit_char, digit_value};

#[derive(Clone, Copy, Debug, PartialEq, Eq)]
pub struct IntTy {
    pub bits: u32,
    pub signed: bool,
}

impl IntTy {
    pub fn name(&self) -> String {
        format!("{}{}", if self.signed { 'i' } else { 'u' }, self.bits)
    }
    pub fn max_mag(&self, neg: bool) -> u128 {
        if self.signed {
            let m = 1u128 << (self.bits - 1);
            if neg {
                m
            } else {
                m - 1
            }
        } else if neg {
            0
        } else if self.bits == 128 {
            u128::MAX
        } else {
            (1u128 << self.bits) - 1
        }
    }
}

/// Sign-magnitude integer value.
#[derive(Clone, Copy, Debug, PartialEq, Eq)]
pub struct IVal {
    pub neg: bool,
    pub mag: u128,
}

impl IVal {
    pub fn from_i128(v: i128) -> IVal {
        IVal { neg: v < 0, mag: v.unsigned_abs() }
    }
    pub fn from_u128(v: u128) -> IVal {
        IVal { neg: false, mag: v }
    }
    pub fn norm(self) -> IVal {
        if self.mag == 0 {
            IVal { neg: false, mag: 0 }
        } else {
            self
        }
    }
    pub fn show(&self) -> String {
        format!("{}{}", if self.neg { "-" } else { "" }, self.mag)
    }
}

/// Canonical numeral of a magnitude: digits 0-9 then A-Z, no leading zeros.
pub fn numeral_mag(mut mag: u128, radix: u32) -> Vec<u8> {
    if mag == 0 {
        return vec![b'0'];
    }
    let mut out = Vec::new();
    while mag > 0 {
        out.push(digit_char((mag % radix as u128) as u32));
        mag /= radix as u128;
    }
    out.reverse();
    out
}

pub fn numeral(v: IVal, radix: u32) -> Vec<u8> {
    let mut out = Vec::new();
    if v.neg && v.mag != 0 {
        out.push(b'-');
    }
    out.extend(numeral_mag(v.mag, radix));
    out
}

#[derive(Clone, Copy, Debug, PartialEq, Eq)]
pub enum RefErr {
    Empty(usize),
    InvalidDigit(usize),
    Overflow(usize),
    Underflow(usize),
}

#[derive(Clone, Copy, Debug, PartialEq, Eq)]
pub enum RefOut {
    /// value, consumed bytes
    Ok(IVal, usize),
    Err(RefErr),
    /// the statement does not define the outcome (partial parser, no digit before a non-digit)
    Unspecified,
}

/// Left-to-right reference scan.
/// complete: Ok only if the whole input is [+-]digits and the value fits.
/// partial: stops at the first non-digit.
pub fn ref_parse(s: &[u8], radix: u32, ty: IntTy, partial: bool) -> RefOut {
    let mut i = 0usize;
    let mut neg = false;
    if let Some(&c) = s.first() {
        if c == b'+' {
            i = 1;
        } else if c == b'-' && ty.signed {
            neg = true;
            i = 1;
        }
    }
    if i >= s.len() {
        return RefOut::Err(RefErr::Empty(i));
    }
    let max = ty.max_mag(neg);
    let mut mag: u128 = 0;
    let start = i;
    while i < s.len() {
        let d = match digit_value(s[i]) {
            Some(d) if d < radix => d,
            _ => {
                if partial {
                    if i == start {
                        return RefOut::Unspecified;
                    }
                    return RefOut::Ok(IVal { neg, mag }.norm(), i);
                } else {
                    return RefOut::Err(RefErr::InvalidDigit(i));
                }
            }
        };
        let next = mag.checked_mul(radix as u128).and_then(|x| x.checked_add(d as u128));
        match next {
            Some(n) if n <= max => mag = n,
            _ => {
                return RefOut::Err(if neg { RefErr::Underflow(i) } else { RefErr::Overflow(i) });
            }
        }
        i += 1;
    }
    RefOut::Ok(IVal { neg, mag }.norm(), i)
}

pub fn self_check() -> Result<(), String> {
    // numeral vs std formatting
    for &v in &[0u128, 1, 9, 10, 255, 256, 65535, u64::MAX as u128, u128::MAX, 1u128 << 127] {
        if numeral_mag(v, 10) != v.to_string().as_bytes() {
            return Err(format!("dec {v}"));
        }
        if numeral_mag(v, 16) != format!("{:X}", v).as_bytes() {
            return Err(format!("hex {v}"));
        }
        if numeral_mag(v, 8) != format!("{:o}", v).as_bytes() {
            return Err(format!("oct {v}"));
        }
        if numeral_mag(v, 2) != format!("{:b}", v).as_bytes() {
            return Err(format!("bin {v}"));
        }
    }
    // parser vs from_str_radix on a small exhaustive space (i8/u8, strings of length <= 3)
    let alpha = b"+-019aAzZ_";
    let mut s: Vec<u8> = Vec::new();
    fn rec(s: &mut Vec<u8>, alpha: &[u8], depth: usize, err: &mut Option<String>) {
        if err.is_some() {
            return;
        }
        for radix in [2u32, 10, 16, 36] {
            let st = std::str::from_utf8(s).unwrap();
            let r8 = i8::from_str_radix(st, radix);
            let u8_ = u8::from_str_radix(st, radix);
            let m8 = ref_parse(s, radix, IntTy { bits: 8, signed: true }, false);
            let mu8 = ref_parse(s, radix, IntTy { bits: 8, signed: false }, false);
            let ok1 = match (&r8, m8) {
                (Ok(v), RefOut::Ok(iv, n)) => IVal::from_i128(*v as i128) == iv && n == s.len(),
                (Err(_), RefOut::Err(_)) => true,
                _ => false,
            };
            // std rejects a lone "-" for unsigned the same way we do (invalid digit)
            let ok2 = match (&u8_, mu8) {
                (Ok(v), RefOut::Ok(iv, n)) => IVal::from_u128(*v as u128) == iv && n == s.len(),
                (Err(_), RefOut::Err(_)) => true,
                _ => false,
            };
            if !ok1 || !ok2 {
                *err = Some(format!("ref_parse vs std on {:?} radix {radix}", st));
                return;
            }
        }
        if depth == 0 {
            return;
        }
        for &c in alpha {
            s.push(c);
            rec(s, alpha, depth - 1, err);
            s.pop();
        }
    }
    let mut err = None;
    rec(&mut s, alpha, 4, &mut err);
    if let Some(e) = err {
        return Err(e);
    }
    Ok(())
}
