//! vkit: reference models and enumeration helpers. No dependency on lexical.
pub mod big;
pub mod float;
pub mod guard;
pub mod intref;
pub mod out;
pub mod par;
pub mod shortest;
pub mod simple;
pub mod gen;
pub mod gram;

/// Run all oracle self-checks; Err => machinery failure (exit 2 by the caller).
pub fn self_check_all() -> Result<(), String> {
    big::self_check().map_err(|e| format!("R-big: {e}"))?;
    float::self_check().map_err(|e| format!("R-float: {e}"))?;
    intref::self_check().map_err(|e| format!("R-int: {e}"))?;
    shortest::self_check().map_err(|e| format!("R-shortest: {e}"))?;
    simple::self_check().map_err(|e| format!("R-simple: {e}"))?;
    gram::self_check().map_err(|e| format!("R-gram: {e}"))?;
    Ok(())
}
