//! Result reporting: every explorer binary produces one JSON document that the `check`
//! driver merges into evidence. Hand-written JSON (no serde) to keep the trusted base small.

use std::collections::BTreeMap;
use std::fmt::Write as _;
use std::sync::atomic::{AtomicU64, Ordering};
use std::sync::Mutex;

pub fn json_str(s: &str) -> String {
    let mut o = String::with_capacity(s.len() + 2);
    o.push('"');
    for c in s.chars() {
        match c {
            '"' => o.push_str("\\\""),
            '\\' => o.push_str("\\\\"),
            '\n' => o.push_str("\\n"),
            '\r' => o.push_str("\\r"),
            '\t' => o.push_str("\\t"),
            c if (c as u32) < 0x20 || (c as u32) == 0x7f => {
                let _ = write!(o, "\\u{:04x}", c as u32);
            }
            c => o.push(c),
        }
    }
    o.push('"');
    o
}

/// Render bytes as a printable string: ASCII printable kept, others as \xNN.
pub fn show_bytes(b: &[u8]) -> String {
    let mut o = String::new();
    for &c in b {
        if (0x20..0x7f).contains(&c) && c != b'\\' {
            o.push(c as char);
        } else {
            let _ = write!(o, "\\x{:02x}", c);
        }
    }
    o
}

pub fn hex(b: &[u8]) -> String {
    let mut o = String::new();
    for &c in b {
        let _ = write!(o, "{:02x}", c);
    }
    o
}

pub fn unhex(s: &str) -> Vec<u8> {
    (0..s.len() / 2).map(|i| u8::from_str_radix(&s[2 * i..2 * i + 2], 16).unwrap()).collect()
}

#[derive(Clone, Debug)]
pub struct Violation {
    /// Stable identifier of the failing case (used for known-finding matching and replay).
    pub key: String,
    /// Human readable: got / expected.
    pub detail: String,
}

#[derive(Default)]
pub struct FamilyStats {
    pub cases: u64,
    pub nontrivial: u64,
    pub states: u64,
    pub calls: u64,
    pub extra: BTreeMap<String, u64>,
}

#[derive(Default)]
struct Inner {
    families: BTreeMap<String, FamilyStats>,
    samples: Vec<String>,
    sample_counts: BTreeMap<String, u64>,
    violation_groups: BTreeMap<String, u64>,
    violations: Vec<Violation>,
    violation_count: u64,
    machinery_errors: Vec<String>,
    notes: Vec<String>,
    states: u64,
    transitions: u64,
}

/// Thread-safe report collector.
pub struct Report {
    pub property: String,
    pub config: String,
    pub tier: String,
    inner: Mutex<Inner>,
    pub start: std::time::Instant,
    pub max_violations: usize,
    pub max_per_group: u64,
    pub max_samples_per_family: usize,
}

impl Report {
    pub fn new(property: &str, config: &str, tier: &str) -> Report {
        start_watchdog();
        Report {
            property: property.into(),
            config: config.into(),
            tier: tier.into(),
            inner: Mutex::new(Inner::default()),
            start: std::time::Instant::now(),
            max_violations: 1500,
            max_per_group: 12,
            max_samples_per_family: 3,
        }
    }
    /// Merge per-thread counters for a family.
    pub fn add_family(
        &self,
        name: &str,
        cases: u64,
        nontrivial: u64,
        states: u64,
        calls: u64,
        extra: &[(&str, u64)],
    ) {
        let mut g = self.inner.lock().unwrap();
        let f = g.families.entry(name.to_string()).or_default();
        f.cases += cases;
        f.nontrivial += nontrivial;
        f.states += states;
        f.calls += calls;
        for (k, v) in extra {
            *f.extra.entry((*k).to_string()).or_default() += *v;
        }
    }
    pub fn add_states(&self, states: u64, transitions: u64) {
        let mut g = self.inner.lock().unwrap();
        g.states += states;
        g.transitions += transitions;
    }
    pub fn sample(&self, s: String) {
        // keep at most 2 samples per family (family name = first blank-separated word)
        let fam = s.split(' ').next().unwrap_or("").to_string();
        let mut g = self.inner.lock().unwrap();
        let n = g.sample_counts.entry(fam).or_insert(0);
        if *n < 2 {
            *n += 1;
            g.samples.push(s);
        }
    }
    /// Would a sample for this family still be recorded? (cheap pre-check)
    pub fn wants_sample(&self, fam: &str) -> bool {
        let g = self.inner.lock().unwrap();
        g.sample_counts.get(fam).map_or(true, |n| *n < 2)
    }
    pub fn violation(&self, key: String, detail: String) {
        // record at most 12 per group (group = key without its last field) and max_violations total
        let group = match key.rfind('|') {
            Some(i) => key[..i].to_string(),
            None => key.clone(),
        };
        let mut g = self.inner.lock().unwrap();
        g.violation_count += 1;
        let n = g.violation_groups.entry(group).or_insert(0);
        *n += 1;
        if *n <= self.max_per_group && g.violations.len() < self.max_violations {
            g.violations.push(Violation { key, detail });
        }
    }
    pub fn machinery_error(&self, msg: String) {
        let mut g = self.inner.lock().unwrap();
        if g.machinery_errors.len() < 50 {
            g.machinery_errors.push(msg);
        }
    }
    pub fn note(&self, msg: String) {
        self.inner.lock().unwrap().notes.push(msg);
    }
    pub fn violation_count(&self) -> u64 {
        self.inner.lock().unwrap().violation_count
    }
    pub fn to_json(&self) -> String {
        let g = self.inner.lock().unwrap();
        let mut o = String::new();
        let _ = write!(
            o,
            "{{\"property\":{},\"config\":{},\"tier\":{},\"wall_s\":{:.3},",
            json_str(&self.property),
            json_str(&self.config),
            json_str(&self.tier),
            self.start.elapsed().as_secs_f64()
        );
        let evals: u64 = g.families.values().map(|f| f.cases).sum();
        let nontriv: u64 = g.families.values().map(|f| f.nontrivial).sum();
        let states: u64 = g.states + g.families.values().map(|f| f.states.max(f.cases)).sum::<u64>();
        let calls: u64 = g.transitions + g.families.values().map(|f| f.calls).sum::<u64>();
        let _ = write!(
            o,
            "\"states\":{},\"transitions\":{},\"evaluations\":{},\"distinct_nontrivial\":{},",
            states, calls, evals, nontriv
        );
        o.push_str("\"families\":{");
        let mut first = true;
        for (k, f) in &g.families {
            if !first {
                o.push(',');
            }
            first = false;
            let _ = write!(
                o,
                "{}:{{\"cases\":{},\"nontrivial\":{},\"states\":{},\"calls\":{}",
                json_str(k),
                f.cases,
                f.nontrivial,
                f.states.max(f.cases),
                f.calls
            );
            for (ek, ev) in &f.extra {
                let _ = write!(o, ",{}:{}", json_str(ek), ev);
            }
            o.push('}');
        }
        o.push_str("},\"samples\":[");
        for (i, s) in g.samples.iter().enumerate() {
            if i > 0 {
                o.push(',');
            }
            o.push_str(&json_str(s));
        }
        let _ = write!(o, "],\"violation_count\":{},\"violations\":[", g.violation_count);
        for (i, v) in g.violations.iter().enumerate() {
            if i > 0 {
                o.push(',');
            }
            let _ = write!(o, "{{\"key\":{},\"detail\":{}}}", json_str(&v.key), json_str(&v.detail));
        }
        o.push_str("],\"violation_groups\":{");
        for (i, (k, n)) in g.violation_groups.iter().enumerate() {
            if i > 0 {
                o.push(',');
            }
            let _ = write!(o, "{}:{}", json_str(k), n);
        }
        o.push_str("},\"machinery_errors\":[");
        for (i, s) in g.machinery_errors.iter().enumerate() {
            if i > 0 {
                o.push(',');
            }
            o.push_str(&json_str(s));
        }
        o.push_str("],\"notes\":[");
        for (i, s) in g.notes.iter().enumerate() {
            if i > 0 {
                o.push(',');
            }
            o.push_str(&json_str(s));
        }
        o.push_str("]}");
        o
    }
}

/// Per-thread accumulator for one family; flushed into the report on drop-like `finish`.
pub struct Fam<'a> {
    pub name: String,
    pub cases: u64,
    pub nontrivial: u64,
    /// enumerated states (>= cases: includes states visited but not judged)
    pub states: u64,
    /// executions of the implementation whose result was compared with the reference
    pub calls: u64,
    pub extra: BTreeMap<&'static str, u64>,
    pub rep: &'a Report,
    sampled: usize,
}

impl<'a> Fam<'a> {
    pub fn new(rep: &'a Report, name: &str) -> Fam<'a> {
        set_family(name);
        Fam {
            name: name.into(),
            cases: 0,
            nontrivial: 0,
            states: 0,
            calls: 0,
            extra: BTreeMap::new(),
            rep,
            sampled: 0,
        }
    }
    #[inline]
    pub fn bump(&mut self, k: &'static str) {
        *self.extra.entry(k).or_default() += 1;
    }
    #[inline]
    pub fn bump_n(&mut self, k: &'static str, n: u64) {
        *self.extra.entry(k).or_default() += n;
    }
    pub fn want_sample(&mut self) -> bool {
        if self.sampled < self.rep.max_samples_per_family && self.rep.wants_sample(&self.name) {
            self.sampled += 1;
            true
        } else {
            self.sampled = self.rep.max_samples_per_family;
            false
        }
    }
    pub fn finish(self) {
        let ex: Vec<(&str, u64)> = self.extra.iter().map(|(k, v)| (*k, *v)).collect();
        self.rep.add_family(&self.name, self.cases, self.nontrivial, self.states, self.calls, &ex);
    }
}


// ---------------------------------------------------------------------------------------------
// Hang watchdog: every call into the library under test is bracketed by call_enter / call_exit
// (harness::common::guarded). A watchdog thread ticks once a second; a worker that has been
// inside one call for more than VERIF_HANG_SECS (default 120) seconds means the library does not
// terminate on that input: the process prints `HANG family=<name>` and exits with status 3,
// which the driver reports as a violation (a call normally takes well under a millisecond).
pub const MAX_WORKERS: usize = 256;
static TICK: AtomicU64 = AtomicU64::new(1);
#[allow(clippy::declare_interior_mutable_const)]
const ZERO: AtomicU64 = AtomicU64::new(0);
static IN_CALL: [AtomicU64; MAX_WORKERS] = [ZERO; MAX_WORKERS];
static NEXT_SLOT: AtomicU64 = AtomicU64::new(0);
static FAMILY: Mutex<Vec<String>> = Mutex::new(Vec::new());
static WATCHDOG: std::sync::Once = std::sync::Once::new();
thread_local! {
    static SLOT: usize = (NEXT_SLOT.fetch_add(1, Ordering::Relaxed) as usize) % MAX_WORKERS;
}

#[inline]
pub fn call_enter() {
    SLOT.with(|&s| IN_CALL[s].store(TICK.load(Ordering::Relaxed), Ordering::Relaxed));
}
#[inline]
pub fn call_exit() {
    SLOT.with(|&s| IN_CALL[s].store(0, Ordering::Relaxed));
}
fn set_family(name: &str) {
    SLOT.with(|&s| {
        let mut g = FAMILY.lock().unwrap();
        if g.len() <= s {
            g.resize(s + 1, String::new());
        }
        g[s] = name.to_string();
    });
}
fn start_watchdog() {
    WATCHDOG.call_once(|| {
        let limit: u64 = std::env::var("VERIF_HANG_SECS").ok().and_then(|v| v.parse().ok()).unwrap_or(120);
        std::thread::spawn(move || loop {
            std::thread::sleep(std::time::Duration::from_secs(1));
            let now = TICK.fetch_add(1, Ordering::Relaxed) + 1;
            for (i, slot) in IN_CALL.iter().enumerate() {
                let t = slot.load(Ordering::Relaxed);
                if t != 0 && now > t && now - t > limit {
                    let fam = FAMILY.lock().map(|g| g.get(i).cloned().unwrap_or_default()).unwrap_or_default();
                    println!("HANG family={} secs={}", if fam.is_empty() { "?" } else { &fam }, now - t);
                    eprintln!("HANG: a call into the library has not returned for {} s (family {})", now - t, fam);
                    std::process::exit(3);
                }
            }
        });
    });
}

/// Common CLI of explorer binaries.
pub struct Cli {
    pub tier: String,
    pub out: Option<String>,
    pub replay: Option<String>,
    pub config: String,
    pub seed: u64,
    pub threads: usize,
    pub extra: Vec<String>,
}

pub fn parse_cli() -> Cli {
    let mut cli = Cli {
        tier: "quick".into(),
        out: None,
        replay: None,
        config: "dflt".into(),
        seed: 0,
        threads: std::thread::available_parallelism().map(|n| n.get()).unwrap_or(8),
        extra: Vec::new(),
    };
    let args: Vec<String> = std::env::args().skip(1).collect();
    let mut i = 0;
    while i < args.len() {
        match args[i].as_str() {
            "--tier" => {
                cli.tier = args[i + 1].clone();
                i += 1;
            }
            "--out" => {
                cli.out = Some(args[i + 1].clone());
                i += 1;
            }
            "--replay" => {
                cli.replay = Some(args[i + 1].clone());
                i += 1;
            }
            "--config" => {
                cli.config = args[i + 1].clone();
                i += 1;
            }
            "--seed" => {
                cli.seed = args[i + 1].parse().unwrap_or(0);
                i += 1;
            }
            "--threads" => {
                cli.threads = args[i + 1].parse().unwrap_or(8);
                i += 1;
            }
            other => cli.extra.push(other.to_string()),
        }
        i += 1;
    }
    cli
}

pub fn finish(rep: &Report, cli: &Cli) -> ! {
    let js = rep.to_json();
    match &cli.out {
        Some(p) => std::fs::write(p, &js).expect("write result"),
        None => println!("{js}"),
    }
    let g = rep.inner.lock().unwrap();
    if !g.machinery_errors.is_empty() {
        for m in &g.machinery_errors {
            eprintln!("MACHINERY: {m}");
        }
        std::process::exit(2);
    }
    if g.violation_count > 0 {
        std::process::exit(1);
    }
    std::process::exit(0);
}

/// Install a silent panic hook (subjects are wrapped in catch_unwind).
pub fn silence_panics() {
    std::panic::set_hook(Box::new(|_| {}));
}
