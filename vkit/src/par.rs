//! Parallel complete enumeration of an index range: every index is visited exactly once,
//! chunks are handed out dynamically (order does not influence the explored set).

use std::sync::atomic::{AtomicU64, Ordering};

pub fn par_chunks<F>(n: u64, chunk: u64, threads: usize, f: F)
where
    F: Fn(usize, std::ops::Range<u64>) + Sync,
{
    let next = AtomicU64::new(0);
    let chunk = chunk.max(1);
    std::thread::scope(|s| {
        for tid in 0..threads.max(1) {
            let next = &next;
            let f = &f;
            s.spawn(move || loop {
                let start = next.fetch_add(chunk, Ordering::Relaxed);
                if start >= n {
                    break;
                }
                let end = (start + chunk).min(n);
                f(tid, start..end);
            });
        }
    });
}

/// Run one closure per work item (items are coarse, e.g. one radix or one binade range).
pub fn par_items<T: Sync, F>(items: &[T], threads: usize, f: F)
where
    F: Fn(usize, &T) + Sync,
{
    par_chunks(items.len() as u64, 1, threads, |tid, r| {
        for i in r {
            f(tid, &items[i as usize]);
        }
    });
}
