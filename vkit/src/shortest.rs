//! R-shortest: judge a decimal digit string against a float: round trip, shortest, closest.

use crate::big::{Big, PowTable};
use crate::float::{is_correctly_rounded, Class, Fmt, Rat};
use std::cmp::Ordering;

#[derive(Clone, Copy, Debug, PartialEq, Eq)]
pub struct Verdict {
    pub roundtrip: bool,
    pub shortest: bool,
    pub closest: bool,
    /// number of significant digits after stripping leading and trailing zeros
    pub ndigits: usize,
}

fn rat10(d: &Big, pt: &mut PowTable, q: i64) -> Rat {
    crate::float::rat_from(d, pt, q)
}

/// `digits`: ASCII decimal digits of the significand (any leading/trailing zeros allowed);
/// value = int(digits) * 10^q. `abs_bits`: finite, positive (non-zero) float bits.
pub fn judge(f: Fmt, abs_bits: u64, digits: &[u8], q: i64, pt: &mut PowTable) -> Verdict {
    let (m, e) = match f.classify(abs_bits) {
        Class::Finite(m, e) => (m, e),
        _ => panic!("judge: finite non-zero float expected"),
    };
    // strip zeros
    let mut ds = digits;
    while ds.len() > 1 && ds[0] == b'0' {
        ds = &ds[1..];
    }
    let mut q = q;
    while ds.len() > 1 && ds[ds.len() - 1] == b'0' {
        ds = &ds[..ds.len() - 1];
        q += 1;
    }
    let n = ds.len();
    let d = Big::from_digits(ds, 10);
    let r = rat10(&d, pt, q);
    let roundtrip = !d.is_zero() && is_correctly_rounded(f, &r, abs_bits);
    let mut shortest = true;
    if n >= 2 {
        let mut down = d.clone();
        down.divrem_small(10);
        let mut up = down.clone();
        up.add_small(1);
        if is_correctly_rounded(f, &rat10(&down, pt, q + 1), abs_bits)
            || is_correctly_rounded(f, &rat10(&up, pt, q + 1), abs_bits)
        {
            shortest = false;
        }
    }
    // closest among same-length neighbours inside the interval
    let scale = |x: &Big, pt: &mut PowTable| -> Big {
        // x * 10^max(q,0) * 2^max(-e,0)
        let mut a = if q > 0 { x.mul(pt.get(q as u64)) } else { x.clone() };
        if e < 0 {
            a = a.shl((-e) as u64);
        }
        a
    };
    let fval = {
        let mut b = Big::from_u64(m);
        if e > 0 {
            b = b.shl(e as u64);
        }
        if q < 0 {
            b = b.mul(pt.get((-q) as u64));
        }
        b
    };
    let dist = |x: &Big, pt: &mut PowTable| scale(x, pt).abs_diff(&fval);
    let d0 = dist(&d, pt);
    let mut closest = true;
    let mut cands = Vec::new();
    if !d.is_zero() {
        cands.push(d.sub(&Big::from_u64(1)));
    }
    let mut dp = d.clone();
    dp.add_small(1);
    cands.push(dp);
    for c in cands {
        if c.is_zero() {
            continue;
        }
        if is_correctly_rounded(f, &rat10(&c, pt, q), abs_bits) && dist(&c, pt).cmp(&d0) == Ordering::Less {
            closest = false;
        }
    }
    Verdict { roundtrip, shortest, closest, ndigits: n }
}

/// Parse `d[.ddd][e[-]xx]` (std's `{:e}` output) into (digits, exponent of last digit).
pub fn parse_sci(s: &str) -> (Vec<u8>, i64) {
    let s = s.trim_start_matches('-');
    let (mant, exp) = match s.find(|c| c == 'e' || c == 'E') {
        Some(i) => (&s[..i], s[i + 1..].parse::<i64>().unwrap()),
        None => (s, 0),
    };
    let (ip, fp) = match mant.find('.') {
        Some(i) => (&mant[..i], &mant[i + 1..]),
        None => (mant, ""),
    };
    let mut digits = Vec::new();
    digits.extend_from_slice(ip.as_bytes());
    digits.extend_from_slice(fp.as_bytes());
    (digits, exp - fp.len() as i64)
}

pub fn self_check() -> Result<(), String> {
    let mut pt = PowTable::new(10);
    let mut vals: Vec<f64> = vec![
        1.0,
        0.1,
        0.3,
        1e23,
        8.55e21,
        5e-324,
        1.7976931348623157e308,
        2.2250738585072014e-308,
        9007199254740993.0,
        123456.789,
        1.0 / 3.0,
        2.0f64.powi(-1022),
        2.0f64.powi(100),
    ];
    let mut x = 0x9E3779B97F4A7C15u64;
    for _ in 0..2000 {
        // fixed LCG walk: deterministic structured set, not a sample of the checked space
        x = x.wrapping_mul(6364136223846793005).wrapping_add(1442695040888963407);
        let b = x & 0x7FFF_FFFF_FFFF_FFFF;
        let v = f64::from_bits(b);
        if v.is_finite() && v != 0.0 {
            vals.push(v);
        }
    }
    for v in vals {
        let s = format!("{:e}", v);
        let (d, q) = parse_sci(&s);
        let vd = judge(crate::float::F64, v.to_bits(), &d, q, &mut pt);
        if !(vd.roundtrip && vd.shortest && vd.closest) {
            return Err(format!("std {{:e}} output {s} judged {:?}", vd));
        }
        // a deliberately longer string must be judged not shortest (if it still round trips)
        let s17 = format!("{:.17e}", v);
        let (d2, q2) = parse_sci(&s17);
        let vd2 = judge(crate::float::F64, v.to_bits(), &d2, q2, &mut pt);
        if !vd2.roundtrip {
            return Err(format!("17-digit output {s17} does not round trip"));
        }
        if vd2.ndigits > vd.ndigits && vd2.shortest {
            return Err(format!("{s17} judged shortest but {s} is shorter"));
        }
        let v32 = v as f32;
        if v32.is_finite() && v32 != 0.0 {
            let s = format!("{:e}", v32);
            let (d, q) = parse_sci(&s);
            let vd = judge(crate::float::F32, v32.to_bits() as u64, &d, q, &mut pt);
            if !(vd.roundtrip && vd.shortest && vd.closest) {
                return Err(format!("std f32 {{:e}} output {s} judged {:?}", vd));
            }
        }
    }
    Ok(())
}
