//! Reference recogniser for the plain float grammar
//! `[+-]digits[.digits][(e|E)[+-]digits]` (at least one mantissa digit, at least one exponent
//! digit when the exponent character is present) in an arbitrary radix, and the exact-value
//! judge built on it. Independent of lexical.

use crate::big::{digit_value, Big, PowTable};
use crate::float::{is_correctly_rounded, magnitude_class, Fmt, Magnitude, Rat};

#[derive(Clone, Debug)]
pub struct Simple {
    pub neg: bool,
    /// integer digits followed by fraction digits
    pub digits: Vec<u8>,
    pub frac_len: usize,
    /// explicit exponent, saturated to +-10^30
    pub exp: i128,
    pub has_exp: bool,
    pub has_point: bool,
}

pub struct Grammar {
    pub radix: u32,
    pub exp_radix: u32,
    /// accepted exponent characters (both cases listed explicitly)
    pub exp_chars: Vec<u8>,
    pub point: u8,
}

impl Grammar {
    pub fn decimal() -> Grammar {
        Grammar { radix: 10, exp_radix: 10, exp_chars: vec![b'e', b'E'], point: b'.' }
    }
    pub fn radix(radix: u32, exp_radix: u32, exp_char: u8) -> Grammar {
        let mut exp_chars = vec![exp_char];
        if exp_char.is_ascii_alphabetic() {
            exp_chars.push(exp_char ^ 0x20);
        }
        Grammar { radix, exp_radix, exp_chars, point: b'.' }
    }
}

fn is_digit(c: u8, radix: u32) -> bool {
    matches!(digit_value(c), Some(d) if d < radix)
}

/// Match the whole input against the grammar.
pub fn parse_full(g: &Grammar, s: &[u8]) -> Option<Simple> {
    match parse_prefix(g, s) {
        Some((x, n)) if n == s.len() => Some(x),
        _ => None,
    }
}

/// Longest prefix of `s` derivable from the grammar, greedy left to right without
/// backtracking over a started exponent (a started but digit-less exponent is NOT a match
/// of the longer form; the shorter mantissa-only form is returned with its length).
pub fn parse_prefix(g: &Grammar, s: &[u8]) -> Option<(Simple, usize)> {
    let mut i = 0;
    let mut neg = false;
    if i < s.len() && (s[i] == b'+' || s[i] == b'-') {
        neg = s[i] == b'-';
        i += 1;
    }
    let mut digits = Vec::new();
    while i < s.len() && is_digit(s[i], g.radix) {
        digits.push(s[i]);
        i += 1;
    }
    let mut frac_len = 0;
    let mut has_point = false;
    if i < s.len() && s[i] == g.point {
        has_point = true;
        let mut j = i + 1;
        while j < s.len() && is_digit(s[j], g.radix) {
            digits.push(s[j]);
            frac_len += 1;
            j += 1;
        }
        i = j;
    }
    if digits.is_empty() {
        return None;
    }
    let mantissa_end = i;
    let mut exp: i128 = 0;
    let mut has_exp = false;
    if i < s.len() && g.exp_chars.contains(&s[i]) {
        let mut j = i + 1;
        let mut eneg = false;
        if j < s.len() && (s[j] == b'+' || s[j] == b'-') {
            eneg = s[j] == b'-';
            j += 1;
        }
        let start = j;
        let lim: i128 = 10i128.pow(30);
        while j < s.len() && is_digit(s[j], g.exp_radix) {
            let d = digit_value(s[j]).unwrap() as i128;
            exp = (exp * g.exp_radix as i128 + d).min(lim);
            j += 1;
        }
        if j > start {
            has_exp = true;
            if eneg {
                exp = -exp;
            }
            i = j;
        } else {
            exp = 0;
        }
    }
    let _ = mantissa_end;
    Some((Simple { neg, digits, frac_len, exp, has_exp, has_point }, i))
}

pub struct Judge {
    pub radix: u32,
    pub base: u32,
    pt: PowTable,
    pt2: Option<PowTable>,
}

#[derive(Clone, Copy, Debug, PartialEq, Eq)]
pub enum Expect {
    Zero,
    Inf,
    Rounded,
}

impl Judge {
    /// `radix`: digit radix of the mantissa; `base`: exponent base.
    pub fn new(radix: u32, base: u32) -> Judge {
        Judge {
            radix,
            base,
            pt: PowTable::new(radix as u64),
            pt2: if base != radix { Some(PowTable::new(base as u64)) } else { None },
        }
    }

    /// Exact value class of a recognised number for float format `f`.
    /// Returns (expectation, rational when `Rounded`, non-zero?, significant digit count).
    pub fn value(&mut self, f: Fmt, x: &Simple) -> (Expect, Option<Rat>, usize) {
        // strip leading zeros
        let mut ds: &[u8] = &x.digits;
        while ds.len() > 1 && ds[0] == b'0' {
            ds = &ds[1..];
        }
        // strip trailing zeros (adjusting the scale of the last digit)
        let mut scale: i128 = -(x.frac_len as i128); // exponent (in radix) of the last digit
        let mut end = ds.len();
        while end > 1 && ds[end - 1] == b'0' {
            end -= 1;
            scale += 1;
        }
        let ds = &ds[..end];
        let is_zero = ds.iter().all(|&c| c == b'0');
        if is_zero {
            return (Expect::Zero, None, 0);
        }
        let nd = ds.len();
        // value = D * radix^scale * base^exp
        let mc = magnitude_class(f, false, nd as u64, self.radix, scale, self.base, x.exp);
        match mc {
            Magnitude::Zero => (Expect::Zero, None, nd),
            Magnitude::SurelyZero => (Expect::Zero, None, nd),
            Magnitude::SurelyInf => (Expect::Inf, None, nd),
            Magnitude::Compute => {
                let d = Big::from_digits(ds, self.radix);
                let mut num = d;
                let mut den = Big::from_u64(1);
                if self.base == self.radix {
                    let e = (scale + x.exp) as i64;
                    if e >= 0 {
                        num = num.mul(self.pt.get(e as u64));
                    } else {
                        den = self.pt.get((-e) as u64).clone();
                    }
                } else {
                    let scale = scale as i64;
                    if scale >= 0 {
                        num = num.mul(self.pt.get(scale as u64));
                    } else {
                        den = self.pt.get((-scale) as u64).clone();
                    }
                    let pt2 = self.pt2.as_mut().unwrap();
                    if x.exp >= 0 {
                        num = num.mul(pt2.get(x.exp as u64));
                    } else {
                        den = den.mul(pt2.get((-x.exp) as u64));
                    }
                }
                (Expect::Rounded, Some(Rat { num, den }), nd)
            }
        }
    }

    /// Is `bits` (with sign) the correctly rounded value of `x`?
    pub fn is_correct(&mut self, f: Fmt, x: &Simple, bits: u64) -> bool {
        if f.is_neg(bits) != x.neg {
            return false;
        }
        let a = f.abs(bits);
        match self.value(f, x) {
            (Expect::Zero, None, 0) => a == 0,
            (Expect::Zero, _, _) => a == 0, // surely underflows to zero
            (Expect::Inf, _, _) => a == f.inf_bits(),
            (Expect::Rounded, Some(r), _) => is_correctly_rounded(f, &r, a),
            _ => false,
        }
    }

    /// Distance in ULP-steps (bit pattern steps) between `bits` and the correctly rounded value,
    /// searched within +-`max` steps. None if further away (or wrong sign / NaN).
    pub fn ulp_distance(&mut self, f: Fmt, x: &Simple, bits: u64, max: u64) -> Option<u64> {
        if f.is_neg(bits) != x.neg || f.is_nan(bits) {
            return None;
        }
        let a = f.abs(bits);
        let sgn = if x.neg { f.sign_mask() } else { 0 };
        for d in 0..=max {
            if a >= d && self.is_correct(f, x, (a - d) | sgn) {
                return Some(d);
            }
            if a + d <= f.inf_bits() && self.is_correct(f, x, (a + d) | sgn) {
                return Some(d);
            }
        }
        None
    }

    /// The correctly rounded bits (slow; for reporting).
    pub fn expected_bits(&mut self, f: Fmt, x: &Simple) -> u64 {
        let sgn = if x.neg { f.sign_mask() } else { 0 };
        match self.value(f, x) {
            (Expect::Zero, _, _) => sgn,
            (Expect::Inf, _, _) => f.inf_bits() | sgn,
            (Expect::Rounded, Some(r), _) => crate::float::round_nearest_even(f, &r) | sgn,
            _ => unreachable!(),
        }
    }
}

pub fn self_check() -> Result<(), String> {
    // recogniser + judge against std on a small complete string space
    let g = Grammar::decimal();
    let mut j = Judge::new(10, 10);
    let alpha: [&[u8]; 8] = [b"+", b"-", b"0", b"1", b"9", b".", b"e", b"E"];
    let mut err: Option<String> = None;
    crate::gen::for_each_string(&alpha, 5, &mut |s: &[u8]| {
        if err.is_some() {
            return;
        }
        let st = std::str::from_utf8(s).unwrap();
        let std_r = st.parse::<f64>();
        let mine = parse_full(&g, s);
        match (&std_r, &mine) {
            (Ok(v), Some(x)) => {
                if !j.is_correct(crate::float::F64, x, v.to_bits()) {
                    err = Some(format!("judge rejects std value for {st:?}"));
                }
                if j.expected_bits(crate::float::F64, x) != v.to_bits() {
                    err = Some(format!("expected_bits differs from std for {st:?}"));
                }
            }
            (Err(_), None) => {}
            _ => {
                err = Some(format!("grammar disagreement with std FromStr on {st:?}: std={:?} mine={}", std_r, mine.is_some()));
            }
        }
    });
    if let Some(e) = err {
        return Err(e);
    }
    // long inputs
    let cases = [
        "179769313486231580793728971405303415079934132710037826936173778980444968292764750946649017977587207096330286416692887910946555547851940402630657488671505820681908902000708383676273854845817711531764475730270069855571366959622842914819860834936475292719074168444365510704342711559699508093042880177904174497791.999",
        "2.4703282292062327208051355972539706365e-324",
        "2.4703282292062327208051355972539706364e-324",
        "0.000000000000000000000000000000000000000000001e400",
        "1e99999999999999999999999999",
        "1e-99999999999999999999999999",
        "0e99999999999999999999999999",
        "9007199254740993",
        "9007199254740993.00000000000000000000000000000000000000001",
    ];
    for c in cases {
        let x = parse_full(&g, c.as_bytes()).ok_or_else(|| format!("grammar rejects {c}"))?;
        let v = c.parse::<f64>().unwrap();
        if !j.is_correct(crate::float::F64, &x, v.to_bits()) {
            return Err(format!("judge rejects std value for {c}"));
        }
        let v32 = c.parse::<f32>().unwrap();
        if !j.is_correct(crate::float::F32, &x, v32.to_bits() as u64) {
            return Err(format!("judge rejects std f32 value for {c}"));
        }
    }
    Ok(())
}
